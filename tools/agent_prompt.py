#!/usr/bin/env python3
import json,sys
pid=sys.argv[1]
for l in open('/verif/properties.jsonl'):
    p=json.loads(l)
    if p['id']==pid: break
d='/tmp/mut-'+pid
print(f"""You are working in a scratch git worktree of the Go project free5gc/chf (5G Charging Function) at {d}. Work ONLY inside {d}. Do not read or modify /repo or /verif (they are out of bounds for this task), do not commit anything, and never use `git stash` (the stash is shared with other worktrees of the same repository; use `git diff > file` and `git checkout -- .` instead).

Environment: sealed offline sandbox. In every shell call first run: export GOFLAGS=-mod=mod GOPROXY=off GOSUMDB=off GOTOOLCHAIN=local . The default `go` is 1.23.5. The repository's test suite is `cd {d} && go test -vet=off -count=1 ./...` and passes on the unmodified tree. There is no MongoDB, no network beyond loopback; TCP on 127.0.0.1 works. Nothing can be downloaded.

The property under study (it holds, or is intended to hold, on the unmodified tree):

  {p['id']} - {p['title']}
  Statement: {p['statement']}
  Quantified over: {p['quantifier']['text']}
  Code it is anchored in: {', '.join(p['anchors']['files'])}

Your task: produce up to TWO different, independent changes to the *source code* of free5gc/chf (non-test files) each of which BREAKS this property while the project still compiles and the existing test suite still passes. The changes must be realistic - the kind of slip a developer could make in a refactoring or feature patch (wrong variable, off-by-one, missing update on one path, reordered statements, a cache or shortcut that is wrong in a corner, a condition that is too wide or too narrow, two sites that each look fine alone). Each must need something SPECIFIC to manifest: a particular multi-step sequence of operations, a particular interleaving or timing, an unusual input value or boundary, a fault at a particular point - NOT something that the very first ordinary request/input would expose at once. Prefer subtle over blatant. The two changes should hit different code sites / mechanisms. The obvious sites (the central arithmetic of a function, its main happy path) have been tried before: look for less-trodden ground - error and time-out paths, rarely taken branches, the interaction of two modules, configuration-dependent behaviour, state that outlives a request or a session, retries and retransmissions, limits and counters, helper functions shared by several callers.

For each change also write a demonstration: a Go test (or small program) that FAILS with the change applied and PASSES on the unmodified tree. The demonstration may use any approach you like (call internal functions from an in-package _test.go file, stub the database/network, start the in-process Diameter servers on loopback, etc.).

Deliver, for change k in {{1,2}}, a directory {d}/MUTANT{'{k}'}/ containing:
  - patch.diff : `git diff` of the source change only (must apply with `git apply` to a clean checkout of this commit; do not include the demonstration in it)
  - the demonstration file(s), plus in README.md the exact path where each must be placed in the tree and the exact command to run it
  - README.md : what the change is, which part of the property it breaks, what exactly is needed for it to manifest (sequence / input / interleaving), and the output you observed: (a) full test suite with the change: pass, (b) demonstration with the change: fail, (c) demonstration without the change: pass.
You must actually run (a), (b), (c) yourself. At the end leave the worktree's tracked source files UNMODIFIED (git checkout -- . ; demonstrations and MUTANT* directories stay as untracked files). Finish with a short summary of the two changes. If you can only produce one good change, deliver one.""")
