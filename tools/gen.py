#!/usr/bin/env python3
"""Build-time instrumentation for the chf model-checking harness.

  gen.py tp                      (setup) patched copies of go-diameter and free5gc/util under .build/tp
  gen.py overlay [--repo DIR] [--fine] [--real]
                                 (every run) alt.mod/alt.sum, import-rewritten sources of the *current*
                                 tree, overlay.json that injects the harness into <repo>/internal/zzverif

Nothing under the repository is ever written.  Rewrites are import-path substitutions only
("sync" -> vsync, "os" -> vos in cdr/cdrFile); --fine additionally inserts vs.Pt() before every
statement of the processor and context packages (statement-granular scheduling).
--real builds against the unpatched dependencies (real TCP/TLS, real sync) for conformance
replay and the race pass; only mongoapi stays replaced (there is no mongod in the sandbox).
"""
import json, os, re, shutil, subprocess, sys, glob, stat

VERIF = os.path.dirname(os.path.dirname(os.path.abspath(__file__)))
BUILD = os.path.join(VERIF, ".build")

SYNC_PKGS = ["internal/context", "internal/sbi/processor", "internal/abmf", "internal/rating",
             "internal/cgf", "pkg/abmf", "pkg/rf", "internal/sbi"]
OS_PKGS = ["cdr/cdrFile"]
# packages whose statements get a scheduling point each (vs.Pt, live only in fine mode)
FINE_PKGS = ["internal/sbi/processor", "internal/context", "internal/util", "internal/abmf", "internal/rating", "pkg/abmf", "pkg/rf"]


def sh(*a):
    return subprocess.check_output(a, text=True).strip()


def modcache():
    return sh("go", "env", "GOMODCACHE")


def copytree_w(src, dst):
    if os.path.exists(dst):
        shutil.rmtree(dst)
    shutil.copytree(src, dst)
    for root, dirs, files in os.walk(dst):
        for n in dirs + files:
            p = os.path.join(root, n)
            os.chmod(p, os.stat(p).st_mode | stat.S_IWUSR)


def sub1(path, old, new, count=1):
    s = open(path).read()
    if s.count(old) < 1:
        sys.exit("gen.py: pattern not found in %s: %r" % (path, old))
    s = s.replace(old, new) if count == 0 else s.replace(old, new, count)
    open(path, "w").write(s)


def make_vsyncd():
    """vsyncd = vsync with gate kinds prefixed "d." (used by the patched go-diameter so that its locks can be told apart)"""
    src = open(os.path.join(VERIF, "vs/vsync/vsync.go")).read()
    src = src.replace("package vsync", "package vsyncd").replace('vs.Gate("', 'vs.Gate("d.')
    d = os.path.join(VERIF, "vs/vsyncd")
    os.makedirs(d, exist_ok=True)
    cur = open(os.path.join(d, "vsync.go")).read() if os.path.exists(os.path.join(d, "vsync.go")) else ""
    if cur != src:
        open(os.path.join(d, "vsync.go"), "w").write(src)


def make_tp(real=False):
    make_vsyncd()
    mc = modcache()
    tp = os.path.join(BUILD, "tp-real" if real else "tp")
    os.makedirs(tp, exist_ok=True)
    gd = os.path.join(tp, "go-diameter")
    ut = os.path.join(tp, "util")
    copytree_w(os.path.join(mc, "github.com/fiorix/go-diameter@v3.0.2+incompatible"), gd)
    copytree_w(os.path.join(mc, "github.com/free5gc/util@v1.0.6"), ut)
    open(os.path.join(gd, "go.mod"), "w").write("module github.com/fiorix/go-diameter\n\ngo 1.21\n")
    for d in ("examples", "docs"):
        shutil.rmtree(os.path.join(gd, d), ignore_errors=True)
    for f in glob.glob(os.path.join(gd, "**/*_test.go"), recursive=True):
        os.remove(f)
    # dict.Default must be rebuildable per world (see DESIGN 1, determinism)
    sub1(os.path.join(gd, "diam/dict/default.go"), "func init() {\n",
         "func init() { ResetDefault() }\n\n// ResetDefault rebuilds Default exactly as package init does (verification build).\nfunc ResetDefault() {\n")
    shutil.copy(os.path.join(VERIF, "patches/mongoapi.go"), os.path.join(ut, "mongoapi/mongoapi.go"))
    if real:
        shutil.copy(os.path.join(VERIF, "patches/diam_real_stub.go"), os.path.join(gd, "diam/zz_verif_real.go"))
    if not real:
        shutil.copy(os.path.join(VERIF, "patches/diam_network.go"), os.path.join(gd, "diam/network.go"))
        sub1(os.path.join(gd, "diam/server.go"), '\t"sync"\n', '\tsync "verif.local/vs/vsyncd"\n')
        # exploration builds skip the TLS record layer (kept in --real builds)
        sub1(os.path.join(gd, "diam/client.go"), "srv.newConn(tls.Client(rw, config))", "srv.newConn(rw)")
        sub1(os.path.join(gd, "diam/server.go"), "tlsListener := tls.NewListener(conn, config)", "tlsListener := conn")
    # modelled FTP client/server (CDR transfer): a replacement module, not a patched copy
    fd = os.path.join(tp, "ftp")
    os.makedirs(fd, exist_ok=True)
    shutil.copy(os.path.join(VERIF, "patches/ftp.go"), os.path.join(fd, "ftp.go"))
    open(os.path.join(fd, "go.mod"), "w").write("module github.com/jlaffaye/ftp\n\ngo 1.21\n")
    print("tp ready:", tp)


def go_files(repo, pkg):
    d = os.path.join(repo, pkg)
    if not os.path.isdir(d):
        return []
    return sorted(f for f in glob.glob(os.path.join(d, "*.go")) if not f.endswith("_test.go"))


IMPORT_RE = re.compile(r'^(\s*)(?:(\w+)\s+)?"(sync|os)"\s*$')


def rewrite_imports(src, which, target):
    """Replace the import of package `which` ("sync"/"os") by `which "target"` (import lines only)."""
    out, changed, in_block = [], False, False
    for line in src.split("\n"):
        st = line.strip()
        if st.startswith("import ("):
            in_block = True
        elif in_block and st == ")":
            in_block = False
        single = st.startswith("import ") and not st.startswith("import (")
        if in_block or single:
            body = line[len("import "):] if single else line
            m = IMPORT_RE.match(body)
            if m and m.group(3) == which:
                alias = m.group(2) or which
                new = '%s%s "%s"' % (m.group(1), alias, target)
                line = ("import " + new.strip()) if single else new
                changed = True
        out.append(line)
    return "\n".join(out), changed


def make_overlay(repo, fine=False, real=False):
    make_vsyncd()
    gen = os.path.join(BUILD, "gen-real" if real else "gen")
    if os.path.exists(gen):
        shutil.rmtree(gen)
    os.makedirs(gen)
    tp = os.path.join(BUILD, "tp-real" if real else "tp")
    suffix = "-real" if real else ""
    # alt.mod / alt.sum from the current go.mod / go.sum
    mod = open(os.path.join(repo, "go.mod")).read()
    mod += "\nreplace github.com/free5gc/util => %s/util\n" % tp
    mod += "replace github.com/fiorix/go-diameter => %s/go-diameter\n" % tp
    mod += "replace github.com/jlaffaye/ftp => %s/ftp\n" % tp
    mod += "require verif.local/vs v0.0.0\nreplace verif.local/vs => %s/vs\n" % VERIF
    open(os.path.join(BUILD, "alt%s.mod" % suffix), "w").write(mod)
    shutil.copy(os.path.join(repo, "go.sum"), os.path.join(BUILD, "alt%s.sum" % suffix))
    repl = {}
    if True:
        for pkg in SYNC_PKGS:
            for f in go_files(repo, pkg):
                src = open(f).read()
                new, ch = rewrite_imports(src, "sync", "verif.local/vs/vsync")
                if ch:
                    dst = os.path.join(gen, pkg, os.path.basename(f))
                    os.makedirs(os.path.dirname(dst), exist_ok=True)
                    open(dst, "w").write(new)
                    repl[f] = dst
        for pkg in OS_PKGS:
            for f in go_files(repo, pkg):
                src = open(f).read()
                new, ch = rewrite_imports(src, "os", "verif.local/vs/vos")
                if ch:
                    dst = os.path.join(gen, pkg, os.path.basename(f))
                    os.makedirs(os.path.dirname(dst), exist_ok=True)
                    open(dst, "w").write(new)
                    repl[f] = dst
    # the CDR transfer reads the subscriber's file from the same (modelled) file table the CDR writer uses
    for f in go_files(repo, "internal/cgf"):
        cur = repl.get(f, f)
        src = open(cur).read()
        if "os.ReadFile(" in src and '\t"os"\n' in src:
            src = src.replace("os.ReadFile(", "vos.ReadFile(").replace('\t"os"\n', '\t"os"\n\tvos "verif.local/vs/vos"\n', 1)
            dst = os.path.join(gen, "internal/cgf", os.path.basename(f))
            os.makedirs(os.path.dirname(dst), exist_ok=True)
            open(dst, "w").write(src)
            repl[f] = dst
    if True:
        # statement-level scheduling points: instrument the (possibly already rewritten) file with tools/finepts
        tool = os.path.join(BUILD, "bin", "finepts")
        if not os.path.exists(tool) or os.path.getmtime(tool) < os.path.getmtime(os.path.join(VERIF, "tools/finepts/main.go")):
            os.makedirs(os.path.dirname(tool), exist_ok=True)
            subprocess.check_call(["go", "build", "-o", tool, "."], cwd=os.path.join(VERIF, "tools/finepts"),
                                  env=dict(os.environ, GOFLAGS="-mod=mod", GOPROXY="off", GOTOOLCHAIN="local"))
        for pkg in FINE_PKGS:
            for f in go_files(repo, pkg):
                src = repl.get(f, f)
                dst = os.path.join(gen, pkg, os.path.basename(f))
                os.makedirs(os.path.dirname(dst), exist_ok=True)
                tmp = dst + ".fine"
                subprocess.check_call([tool, src, tmp, os.path.basename(f)])
                os.replace(tmp, dst)
                repl[f] = dst
    # harness package and export shims
    for f in sorted(glob.glob(os.path.join(VERIF, "harness", "*.go"))):
        repl[os.path.join(repo, "internal/zzverif", os.path.basename(f))] = f
    for f in sorted(glob.glob(os.path.join(VERIF, "harness", "shims", "**", "*.go"), recursive=True)):
        rel = os.path.relpath(f, os.path.join(VERIF, "harness", "shims"))
        repl[os.path.join(repo, rel)] = f
    # registries generated from the current tree
    reg = gen_registry(repo)
    regf = os.path.join(gen, "zz_registry_test.go")
    open(regf, "w").write(reg)
    repl[os.path.join(repo, "internal/zzverif", "zz_registry_test.go")] = regf
    if real:
        # the real-stack build has no vs gates in chf; harness files tagged for it are selected by build tag
        pass
    ov = os.path.join(BUILD, "overlay%s%s.json" % (suffix, "-fine" if fine else ""))
    json.dump({"Replace": repl}, open(ov, "w"), indent=1)
    print("overlay:", ov, "files:", len(repl))


def gen_registry(repo):
    """Registry of all exported types of cdr/cdrType (from the current tree), as Go source."""
    names = []
    for f in sorted(glob.glob(os.path.join(repo, "cdr/cdrType/*.go"))):
        if f.endswith("_test.go"):
            continue
        for m in re.finditer(r"^type\s+([A-Z]\w*)\s+(struct|\w|\[)", open(f).read(), re.M):
            names.append(m.group(1))
    names = sorted(set(names))
    s = "//go:build verif\n\npackage zzverif\n\nimport (\n\t\"reflect\"\n\n\t\"github.com/free5gc/chf/cdr/cdrType\"\n)\n\n"
    s += "// generated by tools/gen.py from cdr/cdrType of the tree under test\n"
    s += "var cdrTypeRegistry = map[string]reflect.Type{\n"
    for n in names:
        s += "\t%r: reflect.TypeOf(cdrType.%s{}),\n" % (n, n) if False else '\t"%s": reflect.TypeOf((*cdrType.%s)(nil)).Elem(),\n' % (n, n)
    s += "}\n"
    dn = []
    for f in sorted(glob.glob(os.path.join(repo, "ccs_diameter/datatype/*.go"))):
        if f.endswith("_test.go"):
            continue
        for m in re.finditer(r"^type\s+([A-Z]\w*)\s+struct", open(f).read(), re.M):
            dn.append(m.group(1))
    s = s.replace('"github.com/free5gc/chf/cdr/cdrType"\n', '"github.com/free5gc/chf/cdr/cdrType"\n\tccsdt "github.com/free5gc/chf/ccs_diameter/datatype"\n')
    s += "\n// all struct types of ccs_diameter/datatype of the tree under test\nvar diamTypeRegistry = map[string]reflect.Type{\n"
    for n in sorted(set(dn)):
        s += '\t"%s": reflect.TypeOf((*ccsdt.%s)(nil)).Elem(),\n' % (n, n)
    s += "}\n"
    return s


def main():
    a = sys.argv[1:]
    if not a:
        sys.exit(__doc__)
    os.makedirs(BUILD, exist_ok=True)
    if a[0] == "tp":
        make_tp(real=False)
        make_tp(real=True)
    elif a[0] == "overlay":
        repo = "/repo"
        if "--repo" in a:
            repo = a[a.index("--repo") + 1]
        make_overlay(os.path.abspath(repo), fine="--fine" in a, real="--real" in a)
    else:
        sys.exit(__doc__)


if __name__ == "__main__":
    main()
