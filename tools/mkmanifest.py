#!/usr/bin/env python3
"""Regenerates MANIFEST.json from the table below (keeps it valid at all times)."""
import json, os
V = os.path.dirname(os.path.dirname(os.path.abspath(__file__)))
props = [json.loads(l)["id"] for l in open(os.path.join(V, "properties.jsonl"))]

E1 = "e1-world-explorer"
E2 = "e2-input-enumerator"
TB_E1 = ("Go 1.26.8 runtime and testing/synctest (virtual clock, quiescence); in-memory doubles for TCP (ordered reliable pipes), "
         "MongoDB (find-one / upsert-$set) and the CDR directory; TLS record layer skipped in exploration builds; bounds as reported in the evidence file")
CHECKS = {
 "C01": dict(engine=E1, technique="explicit-state BFS over request histories on the real implementation (replay from fresh world), per-step accounting oracle; conformance replay of explored histories on the real TCP/TLS stack",
   text="Every history of create/update/release/recharge up to the depth bound over the stated alphabets is executed on the real processor + Diameter clients + ABMF/rating servers; after every step balance+reservation is compared with the credit-conservation identity. Exhaustive within the bounds reported.",
   ref="6 C01", note=TB_E1),
 "C06": dict(engine=E1, technique="explicit-state BFS over disciplined-consumer histories on the real implementation, per-step overdraft/grant oracle",
   text="All histories of disciplined consumers (usage <= last grant) up to the depth bound, from initial balances around the boundaries of one requested quota; after every step: no negative balance, grant <= what balance+unconsumed reservation buys, final-unit indication present.",
   ref="6 C06", note=TB_E1),
}

TB_E2 = "reference encoder / TLV walker / TS 32.297 reader written from the standards by the author of the check; Go reflect; bounds (deviation bound, per-type caps, exhaustive ranges) as reported in the evidence file"
CHECKS.update({
 "C04": dict(engine=E2, technique="bounded-exhaustive input enumeration (all single + pairwise deviations per type, exhaustive integer/tag/length ranges) against an independent X.690 reference encoder and TLV walker",
   text="Every exported cdrType type (registry generated from the tree), every primitive and ~1800 generated struct types over the ber tag language are marshalled for the base value and all values within 2 deviations, plus all integers of <= 3 content octets region, tag numbers and lengths; output must equal the reference encoder byte for byte, be one well-formed TLV, and never panic.",
   ref="6 C04", note=TB_E2),
 "C05": dict(engine=E2, technique="bounded-exhaustive input enumeration; decode(encode(v)) == v on the real codec for every enumerated value",
   text="Same value space as C04; every value the codec marshals is unmarshalled into a fresh variable with the same parameters and compared structurally.",
   ref="6 C04/C05", note=TB_E2),
 "C16": dict(engine=E2, technique="exhaustive enumeration of all short byte strings and of the one-mutation neighbourhood of all enumerated valid encodings, into every target type",
   text="All byte strings up to 2 (quick) / 3 (thorough) bytes into every cdrType, primitive and sampled generated type; every truncation, bit flip and length-field substitution of every valid base/single-deviation encoding; each decode runs on a capacity-trimmed slice under recover; malformed classes must be reported as errors. Every valid encoding is also decoded with octets appended: the declared length is the extent of the element, the value must not change.",
   ref="6 C16", note=TB_E2),
})
CHECKS.update({
 "C14": dict(engine=E2, technique="bounded-exhaustive enumeration of well-formed CDR file structures (all single + pairwise deviations from a homogeneous and a heterogeneous base structure, all 64 release-identifier combinations); Decoding(Encoding(f)) == f on the real codec",
   text="Every well-formed file structure within 2 (thorough: 3) deviations of the base structure is written with CDRFile.Encoding and read back with CDRFile.Decoding; the result must equal the input; a subset is repeated through the real file system.",
   ref="6 C14/C15", note=TB_E2),
 "C15": dict(engine=E2, technique="bounded-exhaustive enumeration of well-formed CDR file structures; bytes parsed by an independent TS 32.297 clause 6.1 reader",
   text="Same structure space as C14; the bytes produced by CDRFile.Encoding are parsed by an independent reader written from TS 32.297 6.1.1/6.1.2 which must recover every field, find extension octets exactly for release identifier 7 in high-then-low order, and consume the file exactly.",
   ref="6 C14/C15", note=TB_E2),
})
CHECKS.update({
 "C02": dict(engine=E1, technique="explicit-state BFS over request histories on the real implementation; placement oracle on in-memory records and on every decoded file; bounded-exhaustive zone/instant enumeration for the timestamp",
   text="All histories up to the depth bound over two subscribers with up to two sessions each (create with/without usage, updates with one/several containers and rating groups, partial-record trigger, release with usage) and bulk histories that force record splitting; after every transition every session's record(s) must hold exactly the containers reported on it, in order and field by field, nothing foreign, with the identity fields of the create and the right closing cause; files are decoded with an independent reader and the real decoder. TimeStampToCdr is compared with an independent BCD encoder over all quarter-hour offsets -12:00..+14:00 plus odd ones x 12 boundary instants.",
   ref="6 C02", note=TB_E1),
 "C03": dict(engine=E1, technique="explicit-state BFS over bulk request histories on the real implementation; every file write parsed by an independent TS 32.297 reader + BER walker; plus stateless preemption-bounded schedule exploration of two half-record updates in flight at once",
   text="Histories of bulk updates (900/1300/2000/4000 containers), releases and creates carrying bulk usage, up to the depth bound; every write to the CDR file table during the last transition must parse (header/file lengths, CDR count, per-record length, exactly one complete BER CHF record per payload) and no record may exceed 65535 octets.",
   ref="6 C03", note=TB_E1),
})
CHECKS.update({
 "C11": dict(engine=E1, technique="bounded-exhaustive enumeration of request bodies/path parameters (single + pairwise deviations) x explicit-state exploration of request / follow-up histories through the real router; wedge = driver thread blocked forever in virtual time",
   text="Every request body within the deviation bound of the well-formed create/update/release body and every recharging path-parameter shape is sent through the real gin router after a create (and after create+update) and followed by a well-formed update and create for the same subscriber; no 5xx, no escaping panic, 4xx carry a problem document, and the follow-up must complete (a held subscriber lock shows as a driver thread blocked forever, decided by the scheduler without wall-clock timeouts).",
   ref="6 C11", note=TB_E1),
 "C12": dict(engine=E1, technique="explicit-state BFS over request histories through the real router (incl. one-time events and consumers answering the notification with 400/404/500/200, and a consumer without notification URI); contract oracle per request; before/after state comparison for rejected requests",
   text="All histories up to the depth bound over two subscribers (up to two live sessions each, re-attach with another notification URI) mixing valid requests with requests naming an unknown subscriber or an unknown / stale / foreign session reference; status, Location, echoes, body and notifications are checked per request, and every rejected request must leave balances, reservations, records, files and database writes unchanged.",
   ref="6 C12", note=TB_E1),
})
CHECKS.update({
 "C10": dict(engine=E1, technique="explicit-state BFS over create/update/release histories on the real implementation from several presets of the global counter, plus delay-bounded schedule exploration of concurrent creates",
   text="All histories up to the depth bound over subscriber identifiers that are prefixes of one another, consumer names that are empty or end in digits, and counter presets 0/9/99 with a macro operation that advances the counter across a digit boundary; after every transition all unreleased references must be pairwise different and usage addressed to a reference must sit in the record opened by that create. Concurrent creates are explored in schedule mode (see evidence).",
   ref="6 C10", note=TB_E1),
})
CHECKS.update({
 "C13": dict(engine=E2, technique="exhaustive enumeration of service lists x registered routes x token kinds against the real router, with a state-comparison oracle for 'no processing'; plus stateless preemption-bounded schedule exploration (statement-level scheduling points in the authorisation code) of an authenticated and an unauthenticated request in flight together (and of two requests with the same invalid token); plus the real NRF registration run against an intercepted NRF for every shape of the NRF's OAuth2 declaration (answered 201 or 200) and of the configured NRF certificate, followed by a probe of every route",
   text="For each of the 16 ordered lists of distinct service names the router is built by the real NewServer; every (method, path) reported by Engine.Routes() is probed with 11 kinds of missing/malformed/wrongly signed tokens (twice each) against a world holding a live session: the answer must be 401 and balances, reservations, rating modes, records, database reads/writes, Diameter dials and notifications must be unchanged; a control probe with a valid NRF-signed token must not be 401.",
   ref="6 C13", note=TB_E1),
})
CHECKS.update({
 "C18": dict(engine=E1, technique="explicit-state BFS over request histories with an exact resource vector at quiescence, plus long deterministic runs in virtual time, plus deviation-bounded schedule exploration of slow peers (3 s / 6 s delays on every Diameter message delivery), of peers that never answer (orders of the connection reader and the requesting task) and of a peer that does not know the charging application, of a peer whose answers arrive three times, and long runs across a peer outage; a worker watchdog reports worlds that stop for good in an operation on a channel the world does not own",
   text="All histories of updates/recharges over two subscribers up to the depth bound: open and half-closed (modelled) Diameter connections and goroutines of the world are counted exactly before and after every repeated request; long runs of N = 10/100 (thorough 1000) back-to-back and spaced updates must never exceed the resources the first three requests per subscriber needed, also after 60 s of virtual quiet.",
   ref="6 C18", note=TB_E1),
})
CHECKS.update({
 "C07": dict(engine=E1, technique="explicit-state BFS over credit-control request sequences against the real account-balance server (real go-diameter client/server state machines on the modelled network), reference model = map of balances; free-running -race side pass with four peers on separate connections; plus stateless preemption-bounded schedule exploration of short request sequences sent over one connection per request",
   text="All sequences up to the depth bound of CCRs (4 actions x request types x 11 boundary amounts up to 2^63-1 x 3 accounts + unknown subscriber + unknown rating group) from small and near-2^63 initial balances are sent over a real Diameter connection to the server started by abmf.OpenServer; stored balances, grant, final-unit indication and the echoed Session-Id/type/number are compared with a reference model after every request; absence of an answer is decided at quiescence.",
   ref="6 C07", note=TB_E1),
})
CHECKS.update({
 "C08": dict(engine=E2, technique="exhaustive enumeration of (stored unit-cost string x request sub-type x boundary value) against the real rating server over real go-diameter state machines on the modelled network, answer presence decided at quiescence; plus stateless preemption-bounded schedule exploration of two / three peers with requests in flight on separate connections; plus every word up to a length bound (and long runs) over seven request kinds sent one after the other to one server; free-running -race side pass with four peers",
   text="Every unit-cost string of the alphabet (integers incl. 0 and 2^32-1, decimals, malformed text) x 4 sub-types x boundary consumed/quota values is sent over a real Diameter connection to the server started by rf.OpenServer; price / allowed units must be exact, the tariff must decode at the CHF (getUnitCost arithmetic) to the unit cost applied, every request must be answered and another subscriber must still be served afterwards. Schedule part: every placement of up to k PARK deviations at network, database and dispatcher operations while two or three peers each have one request in flight; every peer must receive the answer to its own request (Session-Id, own tariff, exact price).",
   ref="6 C08", note=TB_E1),
})
CHECKS.update({
 "C17": dict(engine=E2, technique="bounded-exhaustive enumeration of message values (single + pairwise deviations) through the real go-diameter marshal/serialise/parse/unmarshal path with the chf dictionaries; exhaustive static resolution of every avp struct tag; the same value spaces through the CHF's own client functions against a scripted peer on the modelled network",
   text="For each of the four message structures the base message and every value within 2 deviations (boundary values of every scalar, string lengths 0/1/255/4096 and raw octets, every optional grouped AVP present/absent) is marshalled, written, re-read and unmarshalled and compared field by field; every avp tag of every struct of ccs_diameter/datatype (registry generated from the tree) must resolve in the loaded dictionaries with a matching data type, and AVP codes/names in the chf dictionaries must be unique.",
   ref="6 C17", note=TB_E2),
})
CHECKS.update({
 "C19": dict(engine=E1, technique="stateless deviation-bounded schedule exploration (controlled goroutine scheduler + virtual time) of the real CHF / go-diameter / peer servers: every placement of up to k answer-delay, answer-retransmission or timer-first deviations, over consecutive updates on one and on two rating groups with different tariffs",
   text="One subscriber sends consecutive updates with pairwise different requested amounts and then a fault-free probe; from the default schedule every placement of up to k deviations (quick: k=1 on three updates and k=2 on two updates; thorough: k=2 / k=3) is executed to completion, where a deviation delays the delivery of an answer beyond the 5 s client time-out at the client connection or at the client's dispatcher, makes a peer retransmit an application answer twice, or lets the clock run first. Each execution is checked for cross-talk (grant or reservation not matching the update's own request), requests blocked forever (decided by the scheduler in virtual time) and a failing probe.",
   ref="6 C19", note=TB_E1),
})
CHECKS.update({
 "C09": dict(engine=E1, technique="stateless preemption-bounded schedule exploration (controlled goroutine scheduler) of 2-3 concurrent requests on the real implementation, serializability oracle against the implementation's own serial executions; scenarios with the CDR transfer enabled run against a modelled FTP connection that records two commands in flight at once",
   text="Fifteen scenarios (creates for a new / known / different / prefix-ambiguous SUPI and the same consumer, updates on the same / different sessions and subscribers, update vs release, update vs external credit + recharge notification, update vs notification alone, partial-record closures, three-request mixes): after a sequential set-up the requests run in concurrent driver threads; every placement of up to k PARK deviations at shared-state operations is executed to completion, then every acknowledged session is updated and released. No execution may block forever, panic or kill the process, and the final observation must equal that of some serial order of the same requests (reference = the implementation run serially in every permutation).",
   ref="6 C09", note=TB_E1 + "; unsynchronised plain-memory accesses between two gates are outside the cooperative scheduler's view: the 'no data race' clause is decided by a separate free-running race-detector pass over the same scenario bodies (a detector run, not an exhaustive search; see DESIGN.md 3.7)"),
})
CHECKS.update({
 "C20": dict(engine=E2, technique="bounded-exhaustive enumeration of YAML configurations (single + pairwise, thorough: triple deviations from a valid baseline) through the real validation and the real start-up sequence, process deaths attributed per configuration",
   text="Every configuration within the deviation bound (sections and fields present/absent, tls blocks complete/absent/partial/empty, schemes, service lists incl. unknown/duplicate/missing, ports, URIs, versions, log levels) is read by factory.ReadConfig; configurations with an unknown service, a bad scheme or a missing mandatory section must be rejected; every accepted one is started through service.NewApp, rf.OpenServer, abmf.OpenServer, sbi.NewServer, a create and an online update, and the real startServer - any panic, 5xx or death of the process is a violation attributed to that configuration.",
   ref="6 C20", note=TB_E1),
})
NA_REASON = "check under construction (see DESIGN.md section 6)"

m = {"version": 1, "setup_cmd": "./setup.sh",
 "hooks": {"guard": "verif",
  "enable": "cd /repo && go1.26.8 test -c -tags verif -modfile /verif/.build/alt.mod -overlay /verif/.build/overlay.json ./internal/zzverif   (import rewriting sync->vsync, os->vos, export shims and harness injection all live in the build overlay generated from the current tree by tools/gen.py; /repo carries no hook commits)",
  "baseline_off_cmd": "cd /repo && go test -vet=off -count=1 ./...", "source_commits": [], "add_only": True},
 "engines": [
  {"name": E1, "path": "harness/ vs/ patches/", "serves_properties": sorted(k for k, v in CHECKS.items() if v["engine"] == E1),
   "kind_free_text": "explicit-state / stateless model checker whose transition function is the real CHF under a gate scheduler (controlled goroutine scheduling at sync/network/db/file operations), virtual time, modelled network, database and file table"},
  {"name": E2, "path": "harness/", "serves_properties": sorted(k for k, v in CHECKS.items() if v["engine"] == E2),
   "kind_free_text": "bounded-exhaustive enumeration of inputs / configurations (all single and pairwise deviations from base values plus fully exhaustive sub-spaces) against independent reference models"}],
 "checks": [], "not_applicable": [], "notes": "see DESIGN.md; known findings in known_findings.json"}
for p in props:
    if p in CHECKS:
        c = CHECKS[p]
        m["checks"].append({"property_id": p, "quick_cmd": "./run %s quick" % p, "thorough_cmd": "./run %s thorough" % p,
            "evidence_file": "evidence/%s.json" % p, "replay_cmd_template": "./run %s --replay {path}" % p, "engine": c["engine"],
            "level_claimed": {"category": "model_checking", "text": c["text"], "design_ref": c["ref"]},
            "level_note": c["note"], "technique": c["technique"]})
    else:
        m["not_applicable"].append({"property_id": p, "reason": NA_REASON})
json.dump(m, open(os.path.join(V, "MANIFEST.json"), "w"), indent=1)
print("checks:", len(m["checks"]), "n/a:", len(m["not_applicable"]))
