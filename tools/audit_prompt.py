#!/usr/bin/env python3
"""Prompt for an independent auditor agent: look for a genuine violation of one property on the unmodified tree."""
import json,sys
pid=sys.argv[1]
for l in open('/verif/properties.jsonl'):
    p=json.loads(l)
    if p['id']==pid: break
known=[e for e in json.load(open('/verif/known_findings.json')) if isinstance(e,dict) and e.get('property')==pid]
kn="\n".join("  - %s (%s)"%(e['what'][:400], e.get('call_site','')[:120]) for e in known) or "  (none recorded)"
d='/tmp/aud-'+pid
print(f"""You are auditing the Go project free5gc/chf (5G Charging Function) in the scratch git worktree {d}. Work ONLY inside {d}. Do not read or modify /repo or /verif (out of bounds), do not commit anything, and never use `git stash`.

Environment: sealed offline sandbox. In every shell call first run: export GOFLAGS=-mod=mod GOPROXY=off GOSUMDB=off GOTOOLCHAIN=local . The default `go` is 1.23.5. The test suite is `cd {d} && go test -vet=off -count=1 ./...` and passes. There is no MongoDB and no network beyond loopback; TCP on 127.0.0.1 works. Nothing can be downloaded.

The property under audit:

  {p['id']} - {p['title']}
  Statement: {p['statement']}
  Quantified over: {p['quantifier']['text']}
  Code it is anchored in: {', '.join(p['anchors']['files'])}

Defects of this code with respect to this property that are ALREADY KNOWN (do not report these again):
{kn}

Your task: find out whether the UNMODIFIED code in {d} really satisfies this property. Read the anchored code (and whatever it calls) carefully and look for a concrete input, request history, interleaving, timing or fault pattern - inside what the property quantifies over - for which the statement is FALSE on the code as it is. Think about boundaries, rarely taken branches, error and time-out paths, state that outlives a request or session, two modules that disagree about a convention, concurrency between requests, integer widths, and unusual but legal inputs. Do not change the source code: this is an audit of the tree as it stands.

For every genuine violation you find (at most three, the most convincing ones), write a demonstration: a Go test (in-package _test.go, stubbing the database / starting the in-process Diameter servers on loopback / whatever is needed) that FAILS on the unmodified tree because the property is violated, with an assertion message that states what was expected and what happened. Run it and keep the output. A finding without a running demonstration does not count; a demonstration that fails for reasons other than the property (set-up errors, time-outs of your own harness) does not count either.

Deliver in {d}/AUDIT/:
  - FINDING<k>/README.md : the violated clause of the property, the exact input / history / interleaving, why the code behaves that way (file and line), the command to run the demonstration and its output; FINDING<k>/<demo files> stored with a .txt suffix (so that `go test ./...` does not pick them up there), with the path where each must be placed.
  - NOTES.md : what else you examined and found to be in order (briefly), and anything suspicious that you could not turn into a demonstration.
If after a serious effort you find no violation, say so in NOTES.md and list what you tried. Leave the tracked source files unmodified. Finish with a short summary.""")
