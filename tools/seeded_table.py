#!/usr/bin/env python3
"""Rewrites the table between the SEEDED-TABLE markers of DESIGN.md from seeded/*/meta.json."""
import glob, json, os, re
V = os.path.dirname(os.path.dirname(os.path.abspath(__file__)))
rows = ["| Seeded change | Property | Reported by (rule families) | Run but silent |", "|---|---|---|---|"]
n = det = 0
for m in sorted(glob.glob(os.path.join(V, "seeded/*/meta.json"))):
    d = json.load(open(m))
    name = os.path.basename(os.path.dirname(m))
    hits, miss = [], []
    for k, v in sorted(d.get("detection", {}).items()):
        c = k.split("/")[0]
        if v["exit"] == 1:
            fams = sorted(set(r.replace("rule=", "").split("/")[0] for r in v["rules"]))
            hits.append("%s (%s)" % (c, ", ".join(fams[:3])))
        elif v["exit"] == 0:
            miss.append(c)
        else:
            miss.append("%s (exit %d)" % (c, v["exit"]))
    n += 1
    det += bool(hits)
    rows.append("| `%s` | %s | %s | %s |" % (name, d.get("property"), "; ".join(hits) or "**none**", ", ".join(miss) or "–"))
table = "\n".join(rows) + "\n\n%d seeded changes, %d reported by at least one check.\n" % (n, det)
p = os.path.join(V, "DESIGN.md")
s = open(p).read()
s = re.sub(r"(<!-- SEEDED-TABLE-BEGIN -->\n).*?(<!-- SEEDED-TABLE-END -->)", lambda mm: mm.group(1) + table + mm.group(2), s, flags=re.S)
open(p, "w").write(s)
print(n, det)
