#!/usr/bin/env python3
"""Ingest and verify a seeded property-breaking change, then run checks against it.

  mutant.py ingest SRC ID PROP --demo FILE:DEST [...] --run 'go test args' [--checks C01,C06] [--tier quick]
      SRC  directory holding patch.diff, README.md and the demonstration files
      ID   name under /verif/seeded/
  mutant.py recheck ID [--checks ...] [--tier quick|thorough]     (re-run checks against an ingested change)

Everything happens in a scratch worktree of /repo (HEAD) under /tmp that is removed afterwards; /repo is never touched.
"""
import argparse, json, os, shutil, subprocess, sys, time

V = os.path.dirname(os.path.dirname(os.path.abspath(__file__)))
ENV = dict(os.environ, GOFLAGS="-mod=mod", GOPROXY="off", GOSUMDB="off", GOTOOLCHAIN="local")


def sh(cmd, cwd=None, timeout=3600, env=ENV):
    p = subprocess.run(cmd, shell=True, cwd=cwd, env=env, stdout=subprocess.PIPE, stderr=subprocess.STDOUT, text=True, timeout=timeout)
    return p.returncode, p.stdout


def worktree(id_):
    w = "/tmp/mw-" + id_
    sh("git -C /repo worktree remove --force %s" % w)
    shutil.rmtree(w, ignore_errors=True)
    rc, out = sh("git -C /repo worktree add -q --detach %s HEAD" % w)
    if rc:
        sys.exit("worktree: " + out)
    return w


def drop(w):
    sh("git -C /repo worktree remove --force %s" % w)
    shutil.rmtree(w, ignore_errors=True)


def apply_patch(w, patch):
    rc, out = sh("git apply --whitespace=nowarn %s" % patch, cwd=w)
    if rc:
        rc, out = sh("git apply -3 --whitespace=nowarn %s" % patch, cwd=w)
    if rc:
        rc, out = sh("patch -p1 --fuzz=3 < %s" % patch, cwd=w)
    return rc, out


def run_checks(w, checks, tier):
    res = {}
    for c in checks:
        t0 = time.time()
        rc, out = sh("./run %s %s" % (c, tier), cwd=V, env=dict(ENV, VERIF_REPO=w), timeout=4 * 3600)
        rules = sorted(set(l.split()[0] for l in out.splitlines() if l.startswith("  rule=")))
        res[c] = {"exit": rc, "violation_lines": sum(1 for l in out.splitlines() if l.startswith("VIOLATION")), "rules": rules[:12],
                  "tail": out.strip().splitlines()[-1:] , "wall_s": round(time.time() - t0, 1)}
        print("   check %s %s on mutant: exit=%d rules=%s" % (c, tier, rc, rules[:6]))
    return res


def main():
    ap = argparse.ArgumentParser()
    ap.add_argument("cmd")
    ap.add_argument("args", nargs="*")
    ap.add_argument("--demo", action="append", default=[])
    ap.add_argument("--run", default="")
    ap.add_argument("--checks", default="")
    ap.add_argument("--tier", default="quick")
    ap.add_argument("--needs", default="")
    a = ap.parse_args()
    if a.cmd == "refresh":
        # re-base the stored patch on the current HEAD of /repo (plain `git apply` must work) and confirm it again
        id_ = a.args[0]
        dst = os.path.join(V, "seeded", id_)
        meta = json.load(open(os.path.join(dst, "meta.json")))
        w = worktree(id_)
        try:
            head = sh("git -C /repo rev-parse --short HEAD")[1].strip()
            rc, _ = sh("git apply --check --whitespace=nowarn %s" % os.path.join(dst, "patch.diff"), cwd=w)
            plain = rc == 0
            def place():
                for stored, dest in meta["demos"]:
                    os.makedirs(os.path.dirname(os.path.join(w, dest)), exist_ok=True)
                    shutil.copy(os.path.join(dst, stored), os.path.join(w, dest))
            def unplace():
                for stored, dest in meta["demos"]:
                    try:
                        os.remove(os.path.join(w, dest))
                    except FileNotFoundError:
                        pass
            place()
            rc0, out0 = sh(meta["demo_cmd"], cwd=w)
            unplace()
            rc, out = apply_patch(w, os.path.join(dst, "patch.diff"))
            if rc:
                print("%s: REFRESH FAILED, patch does not apply to %s: %s" % (id_, head, out[-300:]))
                return
            sh("git reset -q", cwd=w)
            _, diff = sh("git diff", cwd=w)
            rc1, out1 = sh("go build ./... && go test -vet=off -count=1 ./...", cwd=w)
            place()
            rc2, out2 = sh(meta["demo_cmd"], cwd=w)
            unplace()
            ok = rc0 == 0 and rc1 == 0 and rc2 != 0
            print("%s: head=%s plain_apply=%s demo_clean=%s suite=%s demo_mutant=%s -> %s" % (id_, head, plain, "pass" if rc0 == 0 else "FAIL", "pass" if rc1 == 0 else "FAIL", "fail" if rc2 else "PASSES", "CONFIRMED" if ok else "NOT CONFIRMED"))
            if not ok:
                print(out0[-500:] if rc0 else "", out1[-500:] if rc1 else "")
                return
            if not plain:
                open(os.path.join(dst, "patch.diff"), "w").write(diff)
            meta.update(base_commit=head, patch_applies=True, demo_without_change="pass", suite_with_change="pass", demo_with_change="fail", confirmed=True)
            json.dump(meta, open(os.path.join(dst, "meta.json"), "w"), indent=1)
        finally:
            drop(w)
        return
    if a.cmd == "ingest":
        src, id_, prop = a.args
        dst = os.path.join(V, "seeded", id_)
        os.makedirs(dst, exist_ok=True)
        shutil.copy(os.path.join(src, "patch.diff"), dst)
        if os.path.exists(os.path.join(src, "README.md")):
            shutil.copy(os.path.join(src, "README.md"), os.path.join(dst, "README.agent.md"))
        demos = []
        for d in a.demo:
            f, dest = d.split(":")
            stored = os.path.basename(f)
            if stored.endswith(".go"):
                stored += ".txt"
            shutil.copy(os.path.join(src, f), os.path.join(dst, stored))
            demos.append([stored, dest])
        meta = {"id": id_, "property": prop, "demos": demos, "demo_cmd": a.run, "needs": a.needs, "base_commit": sh("git -C /repo rev-parse --short HEAD")[1].strip()}
    else:
        id_ = a.args[0]
        dst = os.path.join(V, "seeded", id_)
        meta = json.load(open(os.path.join(dst, "meta.json")))
        prop, demos = meta["property"], meta["demos"]
    checks = [c for c in (a.checks or prop).split(",") if c]
    w = worktree(id_)
    try:
        def place():
            for stored, dest in demos:
                os.makedirs(os.path.dirname(os.path.join(w, dest)), exist_ok=True)
                shutil.copy(os.path.join(dst, stored), os.path.join(w, dest))

        def unplace():
            for stored, dest in demos:
                try:
                    os.remove(os.path.join(w, dest))
                except FileNotFoundError:
                    pass
        if a.cmd == "ingest":
            place()
            rc0, out0 = sh(meta["demo_cmd"], cwd=w)
            meta["demo_without_change"] = "pass" if rc0 == 0 else "FAIL"
            unplace()
            rc, out = apply_patch(w, os.path.join(dst, "patch.diff"))
            meta["patch_applies"] = rc == 0
            if rc:
                print("PATCH DOES NOT APPLY:", out[-400:])
            rc1, out1 = sh("go build ./... && go test -vet=off -count=1 ./...", cwd=w)
            meta["suite_with_change"] = "pass" if rc1 == 0 else "FAIL"
            place()
            rc2, out2 = sh(meta["demo_cmd"], cwd=w)
            meta["demo_with_change"] = "fail" if rc2 != 0 else "PASSES"
            unplace()
            meta["ran"] = ["demo on clean HEAD worktree", "git apply patch.diff", "go build ./... && go test -vet=off -count=1 ./...", "demo with change"]
            ok = meta["patch_applies"] and meta["demo_without_change"] == "pass" and meta["suite_with_change"] == "pass" and meta["demo_with_change"] == "fail"
            meta["confirmed"] = ok
            print("%s: applies=%s demo_clean=%s suite=%s demo_mutant=%s -> %s" % (id_, meta["patch_applies"], meta["demo_without_change"], meta["suite_with_change"], meta["demo_with_change"], "CONFIRMED" if ok else "REJECTED"))
            if not ok:
                print(out0[-600:] if rc0 else "", out1[-600:] if rc1 else "", out2[-300:] if rc2 == 0 else "")
        else:
            rc, out = apply_patch(w, os.path.join(dst, "patch.diff"))
            if rc:
                sys.exit("patch does not apply any more: " + out[-300:])
        if meta.get("confirmed"):
            meta.setdefault("detection", {})
            r = run_checks(w, checks, a.tier)
            for c, v in r.items():
                meta["detection"]["%s/%s" % (c, a.tier)] = v
        json.dump(meta, open(os.path.join(dst, "meta.json"), "w"), indent=1)
    finally:
        drop(w)


if __name__ == "__main__":
    main()
