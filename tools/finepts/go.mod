module verif.local/finepts

go 1.21
