// finepts inserts a scheduling point (vsfine.Pt("<file>:<line>")) before every statement of every function body of a
// Go source file. Pt is a no-op unless the scheduler's fine mode is on, so the instrumented file behaves like the
// original everywhere else. Usage: finepts <in.go> <out.go> <label>
package main

import (
	"bytes"
	"fmt"
	"go/ast"
	"go/format"
	"go/parser"
	"go/token"
	"os"
	"strconv"
)

func main() {
	if len(os.Args) != 4 {
		fmt.Fprintln(os.Stderr, "usage: finepts in.go out.go label")
		os.Exit(2)
	}
	fset := token.NewFileSet()
	f, err := parser.ParseFile(fset, os.Args[1], nil, parser.ParseComments)
	if err != nil {
		fmt.Fprintln(os.Stderr, err)
		os.Exit(1)
	}
	label := os.Args[3]
	n := 0
	pt := func(pos token.Pos) ast.Stmt {
		n++
		line := fset.Position(pos).Line
		return &ast.ExprStmt{X: &ast.CallExpr{
			Fun:  &ast.SelectorExpr{X: ast.NewIdent("vsfine"), Sel: ast.NewIdent("Pt")},
			Args: []ast.Expr{&ast.BasicLit{Kind: token.STRING, Value: strconv.Quote(fmt.Sprintf("%s#%d", label, line))}},
		}}
	}
	instr := func(list []ast.Stmt) []ast.Stmt {
		var out []ast.Stmt
		for _, s := range list {
			switch s.(type) {
			case *ast.DeclStmt, *ast.EmptyStmt, *ast.CaseClause, *ast.CommClause:
				out = append(out, s)
				continue
			}
			out = append(out, pt(s.Pos()), s)
		}
		return out
	}
	ast.Inspect(f, func(nd ast.Node) bool {
		switch x := nd.(type) {
		case *ast.BlockStmt:
			x.List = instr(x.List)
		case *ast.CaseClause:
			x.Body = instr(x.Body)
		case *ast.CommClause:
			x.Body = instr(x.Body)
		}
		return true
	})
	// the inserted statements carry no position: drop the comment map's free-floating comments inside bodies is not
	// needed, go/printer places comments by position of the original nodes
	if n > 0 {
		imp := &ast.GenDecl{Tok: token.IMPORT, Specs: []ast.Spec{&ast.ImportSpec{Name: ast.NewIdent("vsfine"), Path: &ast.BasicLit{Kind: token.STRING, Value: `"verif.local/vs"`}}}}
		// after the existing import declarations
		idx := 0
		for i, d := range f.Decls {
			if g, ok := d.(*ast.GenDecl); ok && g.Tok == token.IMPORT {
				idx = i + 1
			}
		}
		f.Decls = append(f.Decls[:idx], append([]ast.Decl{imp}, f.Decls[idx:]...)...)
	}
	// statements without positions and position-bound comments do not mix in go/printer: keep only the comments in
	// front of the package clause (build constraints) and compiler directives attached to declarations
	var keep []*ast.CommentGroup
	for _, cg := range f.Comments {
		if cg.End() < f.Package {
			keep = append(keep, cg)
		}
	}
	f.Comments = keep
	for _, d := range f.Decls {
		switch x := d.(type) {
		case *ast.FuncDecl:
			x.Doc = nil
		case *ast.GenDecl:
			x.Doc = nil
			for _, sp := range x.Specs {
				switch y := sp.(type) {
				case *ast.TypeSpec:
					y.Doc, y.Comment = nil, nil
				case *ast.ValueSpec:
					y.Doc, y.Comment = nil, nil
				case *ast.ImportSpec:
					y.Doc, y.Comment = nil, nil
				}
			}
		}
	}
	ast.Inspect(f, func(nd ast.Node) bool {
		if fl, ok := nd.(*ast.Field); ok {
			fl.Doc, fl.Comment = nil, nil
		}
		return true
	})
	var buf bytes.Buffer
	if err := format.Node(&buf, fset, f); err != nil {
		fmt.Fprintln(os.Stderr, err)
		os.Exit(1)
	}
	if err := os.WriteFile(os.Args[2], buf.Bytes(), 0o644); err != nil {
		fmt.Fprintln(os.Stderr, err)
		os.Exit(1)
	}
}
