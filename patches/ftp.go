// Package ftp: modelled stand-in for github.com/jlaffaye/ftp (verification build).
//
// Only what chf's CDR transfer (internal/cgf) uses: Dial, Login, NoOp, Stor, List, Quit.
// An FTP control connection carries one command at a time: the real ServerConn is documented as not safe for
// concurrent use (two goroutines issuing commands read each other's replies).  The model makes that observable:
// every command is two scheduling points (command sent, reply received); a command that starts while another one
// of the same connection is between the two is recorded in MemOverlaps.  In free-running (race detector) builds
// every command also touches an unsynchronised field of the connection, as the real library's reader does.
package ftp

import (
	"errors"
	"fmt"
	"io"
	"sort"
	"strings"
	"time"

	"verif.local/vs"
)

type EntryType int

const (
	EntryTypeFile EntryType = iota
	EntryTypeFolder
	EntryTypeLink
)

type Entry struct {
	Name   string
	Target string
	Type   EntryType
	Size   uint64
	Time   time.Time
}

type DialOption struct{}

func DialWithTimeout(time.Duration) DialOption { return DialOption{} }

// MemServer is one modelled FTP server (the billing domain's end of the CDR transfer).
type MemServer struct {
	Addr     string
	Files    map[string][]byte
	Stors    []string // "name:octets" per completed STOR, in order
	StorData [][]byte // what each of them stored
	Refuse   bool     // new connections are refused
	Logins   int
	gen      int
	conns    int
}

var (
	ftpMon      vs.Monitor
	MemServers  = map[string]*MemServer{}
	MemOverlaps []string // "<connection>: <command> sent while <command> awaits its reply"
	MemDials    int
)

func MemReset() { MemServers = map[string]*MemServer{}; MemOverlaps = nil; MemDials = 0 }

// MemServe starts a modelled server at addr.
func MemServe(addr string) *MemServer {
	s := &MemServer{Addr: addr, Files: map[string][]byte{}}
	MemServers[addr] = s
	return s
}

// DropConnections closes every established control connection at the server side (restart, idle time-out).
func (s *MemServer) DropConnections() {
	ftpMon.Do("ftp.srvDrop", s.Addr, nil, func() { s.gen++ })
}

type ServerConn struct {
	srv      *MemServer
	id       string
	gen      int
	busy     string
	closed   bool
	logged   bool
	inflight int // touched without synchronisation by every command (the real connection's reader state)
}

func Dial(addr string, options ...DialOption) (c *ServerConn, err error) {
	ftpMon.Do("ftp.Dial", addr, nil, func() {
		MemDials++
		s := MemServers[addr]
		if s == nil || s.Refuse {
			err = fmt.Errorf("dial tcp %s: connect: connection refused", addr)
			return
		}
		s.conns++
		c = &ServerConn{srv: s, id: fmt.Sprintf("ftp%d@%s", s.conns, addr), gen: s.gen}
	})
	return
}

func (c *ServerConn) dead() bool { return c.closed || c.gen != c.srv.gen }

// cmd: one command/reply exchange on the control connection.
func (c *ServerConn) cmd(name string, effect func() error) (err error) {
	c.inflight++
	ftpMon.Do("ftp."+name, c.id, nil, func() {
		if c.busy != "" {
			MemOverlaps = append(MemOverlaps, fmt.Sprintf("%s: %s sent while %s awaits its reply", c.id, name, c.busy))
			return
		}
		c.busy = name
	})
	ftpMon.Do("ftp.reply", c.id, nil, func() {
		if c.busy == name {
			c.busy = ""
		}
		if c.dead() {
			err = io.EOF
			return
		}
		err = effect()
	})
	c.inflight--
	return
}

func (c *ServerConn) Login(user, password string) error {
	return c.cmd("USER", func() error {
		if user != "admin" || password != "free5gc" {
			return errors.New("530 Login incorrect")
		}
		c.logged = true
		c.srv.Logins++
		return nil
	})
}

func (c *ServerConn) NoOp() error { return c.cmd("NOOP", func() error { return nil }) }

func (c *ServerConn) Stor(path string, r io.Reader) error {
	if strings.ContainsAny(path, "\r\n") {
		// the command line is "STOR <path>" CRLF: a line break inside the argument ends the command early and the server
		// reads the rest as further commands (the replies then no longer match the commands the client believes it sent)
		ftpMon.Do("ftp.inject", c.id, nil, func() {
			MemOverlaps = append(MemOverlaps, fmt.Sprintf("%s: the argument of STOR %q carries a line break: what follows it is executed by the server as further commands", c.id, path))
		})
	}
	data, rerr := io.ReadAll(r)
	if rerr != nil {
		return rerr
	}
	return c.cmd("STOR", func() error {
		if !c.logged {
			return errors.New("530 Please login with USER and PASS")
		}
		c.srv.Files[path] = data
		c.srv.Stors = append(c.srv.Stors, fmt.Sprintf("%s:%d", path, len(data)))
		c.srv.StorData = append(c.srv.StorData, data)
		return nil
	})
}

func (c *ServerConn) List(path string) (entries []*Entry, err error) {
	err = c.cmd("LIST", func() error {
		if !c.logged {
			return errors.New("530 Please login with USER and PASS")
		}
		var names []string
		for n := range c.srv.Files {
			names = append(names, n)
		}
		sort.Strings(names)
		for _, n := range names {
			entries = append(entries, &Entry{Name: n, Type: EntryTypeFile, Size: uint64(len(c.srv.Files[n]))})
		}
		return nil
	})
	return
}

func (c *ServerConn) Quit() error {
	return c.cmd("QUIT", func() error { c.closed = true; return nil })
}
