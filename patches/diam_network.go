package diam

// memnet: fully modelled in-memory replacement of diam/network.go (verification build).
// Listener, dialer and connections are plain data structures; Accept/Dial/Read/Write/Close
// are gates of the vs scheduler whose enabledness is computed from the queues, so no
// goroutine ever blocks natively in the network and after each release exactly one
// goroutine runs.  TCP semantics kept: ordered reliable byte stream per direction, Read
// returns what is buffered (up to len(p)), EOF after the peer closed and the buffer
// drained, error after local close, dial to a missing listener is refused.

import (
	"errors"
	"fmt"
	"io"
	"net"
	"time"

	"verif.local/vs"
)

type Dialer interface {
	Dial(network, address string) (net.Conn, error)
}

type MemEnd struct {
	mon    *vs.Monitor // shared by both ends of the connection
	ID     string
	buf    []byte
	Closed bool // this end closed locally
	Peer   *MemEnd
	l, r   net.Addr
	Sent   []byte // everything ever written by this end (traffic log for oracles)
	Writes int
	// virtual-time stamps for the exchange oracles
	LastWriteAt time.Time
	AppReqAt    time.Time // last write of an application request (not CER/DWR)
	ClosedAt    time.Time
	UnreadAtClose int // bytes the peer had sent that this end had not read when it closed
}

func (c *MemEnd) Read(p []byte) (n int, err error) {
	c.mon.Do("net.Read", c.ID, func() bool { return len(c.buf) > 0 || c.Closed || c.Peer.Closed }, func() {
		if c.Closed {
			err = errors.New("use of closed network connection")
			return
		}
		if len(c.buf) == 0 {
			err = io.EOF
			return
		}
		n = copy(p, c.buf)
		c.buf = c.buf[n:]
	})
	return
}

func (c *MemEnd) Write(p []byte) (n int, err error) {
	// application answers are told apart from base-protocol traffic and from requests: a peer may retransmit them
	kind := "net.Write"
	if len(p) >= 8 {
		if code := uint32(p[5])<<16 | uint32(p[6])<<8 | uint32(p[7]); p[4]&0x80 == 0 && code != 257 && code != 280 && code != 282 {
			kind = "net.WriteAns"
		}
	}
	c.mon.Do(kind, c.ID, nil, func() {
		dup := vs.TakeDup() // (taken even when the write fails: an order never carries over to another write)
		if c.Closed {
			err = errors.New("use of closed network connection")
			return
		}
		if c.Peer.Closed {
			err = errors.New("write: broken pipe")
			return
		}
		c.Peer.buf = append(c.Peer.buf, p...)
		for k := dup; k > 0; k-- {
			// DUP deviation: the peer retransmits this answer (the copies follow it immediately)
			c.Peer.buf = append(c.Peer.buf, p...)
		}
		c.Sent = append(c.Sent, p...)
		c.Writes++
		c.LastWriteAt = time.Now()
		if len(p) >= 8 {
			if code := uint32(p[5])<<16 | uint32(p[6])<<8 | uint32(p[7]); p[4]&0x80 != 0 && code != 257 && code != 280 && code != 282 {
				c.AppReqAt = c.LastWriteAt
			}
		}
		n = len(p)
	})
	return
}

func (c *MemEnd) Close() error {
	c.mon.Do("net.Close", c.ID, nil, func() {
		if !c.Closed {
			c.ClosedAt = time.Now()
			c.UnreadAtClose = len(c.buf)
		}
		c.Closed = true
	})
	return nil
}
func (c *MemEnd) LocalAddr() net.Addr                { return c.l }
func (c *MemEnd) RemoteAddr() net.Addr               { return c.r }
func (c *MemEnd) SetDeadline(t time.Time) error      { return nil }
func (c *MemEnd) SetReadDeadline(t time.Time) error  { return nil }
func (c *MemEnd) SetWriteDeadline(t time.Time) error { return nil }

type memListener struct {
	addr    string
	backlog []*MemEnd
	closed  bool
}

var netMon vs.Monitor // listeners, backlog and the registry

var (
	memListeners = map[string]*memListener{}
	MemEnds      []*MemEnd // a.cli, a.srv, b.cli, b.srv, ... in dial order
	memDials     int
)

func MemReset() { memListeners = map[string]*memListener{}; MemEnds = nil; memDials = 0 }

// MemOpen: connections neither side has closed (ESTABLISHED); MemHalf: exactly one side closed.
func MemOpen() (open, half int) {
	for i := 0; i+1 < len(MemEnds); i += 2 {
		a, b := MemEnds[i], MemEnds[i+1]
		switch {
		case !a.Closed && !b.Closed:
			open++
		case a.Closed != b.Closed:
			half++
		}
	}
	return
}

func MemOpenTo(addr string) (open int) {
	for i := 0; i+1 < len(MemEnds); i += 2 {
		a, b := MemEnds[i], MemEnds[i+1]
		if !a.Closed && !b.Closed && a.r.String() == addr {
			open++
		}
	}
	return
}

func MemDials() int { return memDials }

// MemAbandoned lists client ends that were closed locally less than min after their last request although
// the peer's answer (its second message: the first is the handshake answer) had not been read completely.
func MemAbandoned(min time.Duration) (out []string) {
	for i := 0; i+1 < len(MemEnds); i += 2 {
		a, b := MemEnds[i], MemEnds[i+1]
		if !a.Closed || a.ClosedAt.IsZero() || a.AppReqAt.IsZero() {
			continue
		}
		answered := b.Writes >= 2 && a.UnreadAtClose == 0
		if !answered && a.ClosedAt.Sub(a.AppReqAt) < min {
			out = append(out, fmt.Sprintf("%s closed %v after its request (peer had written %d message(s), %d byte(s) unread)", a.ID, a.ClosedAt.Sub(a.AppReqAt), b.Writes, a.UnreadAtClose))
		}
	}
	return
}

// MemCloseAll is used at teardown (scheduler passive).
func MemCloseAll() {
	netMon.Wake(func() {
		for _, l := range memListeners {
			l.closed = true
		}
	})
	for _, e := range MemEnds {
		e := e
		e.mon.Wake(func() { e.Closed = true })
	}
}

func (l *memListener) Accept() (c net.Conn, err error) {
	netMon.Do("net.Accept", l.addr, func() bool { return len(l.backlog) > 0 || l.closed }, func() {
		if len(l.backlog) == 0 {
			err = errors.New("accept: use of closed network connection")
			return
		}
		c = l.backlog[0]
		l.backlog = l.backlog[1:]
	})
	return
}
func (l *memListener) Close() error   { netMon.Wake(func() { l.closed = true }); return nil }
func (l *memListener) Addr() net.Addr { a, _ := net.ResolveTCPAddr("tcp", l.addr); return a }

type memDialer struct{}

func (memDialer) Dial(network, address string) (c net.Conn, err error) {
	netMon.Do("net.Dial", address, nil, func() {
		l := memListeners[address]
		if l == nil || l.closed {
			err = errors.New("dial tcp " + address + ": connect: connection refused")
			return
		}
		memDials++
		sa, _ := net.ResolveTCPAddr("tcp", address)
		ca := &net.TCPAddr{IP: net.IPv4(127, 0, 0, 1), Port: 40000 + memDials}
		mon := &vs.Monitor{}
		a := &MemEnd{mon: mon, ID: fmt.Sprintf("c%d.cli", memDials), l: ca, r: sa}
		b := &MemEnd{mon: mon, ID: fmt.Sprintf("c%d.srv", memDials), l: sa, r: ca}
		a.Peer, b.Peer = b, a
		MemEnds = append(MemEnds, a, b)
		l.backlog = append(l.backlog, b)
		c = a
	})
	return
}

func getDialer(network string, timeout time.Duration) Dialer { return memDialer{} }

func Listen(network, address string) (ln net.Listener, err error) {
	netMon.Wake(func() {
		if l, ok := memListeners[address]; ok && !l.closed {
			err = errors.New("listen tcp " + address + ": bind: address already in use")
			return
		}
		l := &memListener{addr: address}
		memListeners[address] = l
		ln = l
	})
	return
}
