package mongoapi

// memdb: in-memory stand-in for github.com/free5gc/util/mongoapi (verification build).
// Semantics limited to what chf issues: find-one by exact-match filter (numbers compare by
// value across integer widths as BSON does, strings case-insensitively when a collation
// strength < 3 is passed) and PutOne = update-$set if a document matches else insert of the
// put data alone (exactly what the real RestfulAPIPutOne does).  Get/Put are gates.

import (
	"fmt"
	"reflect"
	"sort"
	"strings"

	"go.mongodb.org/mongo-driver/bson"
	"verif.local/vs"
)

const (
	COLLATION_STRENGTH_IGNORE_DIACRITICS_AND_CASE int = iota + 1
	COLLATION_STRENGTH_IGNORE_CASE
	COLLATION_STRENGTH_DEFAULT
)

var dbMon vs.Monitor

var (
	Docs     = map[string][]map[string]interface{}{}
	Gets     int
	Puts     int
	SetCalls int
	FailSet  error
)

func Reset() { Docs = map[string][]map[string]interface{}{}; Gets, Puts, SetCalls = 0, 0, 0; FailSet = nil }

func SetMongoDB(setdbName string, url string) error { SetCalls++; return FailSet }

func num(v interface{}) (float64, bool) {
	rv := reflect.ValueOf(v)
	switch rv.Kind() {
	case reflect.Int, reflect.Int8, reflect.Int16, reflect.Int32, reflect.Int64:
		return float64(rv.Int()), true
	case reflect.Uint, reflect.Uint8, reflect.Uint16, reflect.Uint32, reflect.Uint64:
		return float64(rv.Uint()), true
	case reflect.Float32, reflect.Float64:
		return rv.Float(), true
	}
	return 0, false
}

func ci(argOpt []interface{}) bool {
	if len(argOpt) == 0 {
		return false
	}
	s, ok := argOpt[0].(int)
	return ok && s < COLLATION_STRENGTH_DEFAULT
}

func match(doc map[string]interface{}, filter bson.M, ci bool) bool {
	for k, fv := range filter {
		dv, ok := doc[k]
		if !ok {
			return false
		}
		if a, ok1 := num(fv); ok1 {
			b, ok2 := num(dv)
			if !ok2 || a != b {
				return false
			}
			continue
		}
		fs, ok1 := fv.(string)
		ds, ok2 := dv.(string)
		if !ok1 || !ok2 || (ci && !strings.EqualFold(fs, ds)) || (!ci && fs != ds) {
			return false
		}
	}
	return true
}

func key(filter bson.M) string { return fmt.Sprint(filter["ueId"], "/", filter["ratingGroup"]) }

func RestfulAPIGetOne(collName string, filter bson.M, argOpt ...interface{}) (out map[string]interface{}, err error) {
	dbMon.Do("db.Get", key(filter), nil, func() {
		Gets++
		for _, d := range Docs[collName] {
			if match(d, filter, ci(argOpt)) {
				out = map[string]interface{}{}
				for k, v := range d {
					out[k] = v
				}
				return
			}
		}
	})
	return
}

func RestfulAPIPutOne(collName string, filter bson.M, putData map[string]interface{}, argOpt ...interface{}) (ex bool, err error) {
	dbMon.Do("db.Put", key(filter), nil, func() {
		Puts++
		for _, d := range Docs[collName] {
			if match(d, filter, ci(argOpt)) {
				for k, v := range putData {
					d[k] = v
				}
				ex = true
				return
			}
		}
		nd := map[string]interface{}{}
		for k, v := range putData {
			nd[k] = v
		}
		Docs[collName] = append(Docs[collName], nd)
	})
	return
}

// Credit is the external account writer (web console): one atomic increment of a stored quota - the most benign
// form such a writer can take.  One gate, like every other database operation.
func Credit(collName string, ueId string, rg int32, amount int64) {
	dbMon.Do("db.Credit", fmt.Sprint(ueId, "/", rg), nil, func() {
		for _, d := range Docs[collName] {
			if d["ueId"] == ueId && fmt.Sprint(d["ratingGroup"]) == fmt.Sprint(rg) {
				var q int64
				fmt.Sscan(fmt.Sprint(d["quota"]), &q)
				d["quota"] = fmt.Sprint(q + amount)
			}
		}
	})
}

func Dump() string {
	var s []string
	for c, ds := range Docs {
		for _, d := range ds {
			ks := make([]string, 0, len(d))
			for k := range d {
				ks = append(ks, k)
			}
			sort.Strings(ks)
			e := c + "{"
			for _, k := range ks {
				e += fmt.Sprintf("%s:%v,", k, d[k])
			}
			s = append(s, e+"}")
		}
	}
	sort.Strings(s)
	return strings.Join(s, ";")
}
