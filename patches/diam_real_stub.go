package diam

// Real-stack variant (conformance replay): go-diameter's own network.go, client.go and server.go are used unchanged
// (real TCP, real TLS); this file only supplies the names of the modelled network that the harness refers to.

import "time"

type MemEnd struct {
	ID   string
	Sent []byte
}

var MemEnds []*MemEnd

func MemReset()                                  {}
func MemOpen() (open, half int)                  { return 0, 0 }
func MemOpenTo(addr string) (open int)           { return 0 }
func MemDials() int                              { return 0 }
func MemAbandoned(min time.Duration) []string    { return nil }
func MemCloseAll()                               {}
