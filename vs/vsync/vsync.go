// Package vsync mirrors the parts of package sync used by the code under test.  Mutex,
// RWMutex and Map are *modelled* objects: their state lives in plain fields and every
// operation is a gate of the vs scheduler, so no goroutine ever blocks on a native lock
// (which testing/synctest could not see) and lock ownership is visible to the explorer.
package vsync

import (
	"sync"

	"verif.local/vs"
)

type (
	WaitGroup = sync.WaitGroup
	Once      = sync.Once
	Pool      = sync.Pool
	Cond      = sync.Cond
	Locker    = sync.Locker
)

func NewCond(l Locker) *Cond { return sync.NewCond(l) }

// In passive (free-running) mode - vs.S.Free == true for the whole run - every object falls back to the real
// primitive it stands for, so that the race detector sees the true happens-before relation of the program.
type Mutex struct {
	locked bool
	real   sync.Mutex
}

func (m *Mutex) Lock() {
	if vs.S.Free {
		m.real.Lock()
		return
	}
	vs.Gate("Lock", m, func() bool { return !m.locked }, func() { m.locked = true })
}

func (m *Mutex) TryLock() (ok bool) {
	if vs.S.Free {
		return m.real.TryLock()
	}
	vs.Gate("TryLock", m, nil, func() {
		if !m.locked {
			m.locked, ok = true, true
		}
	})
	return
}

func (m *Mutex) Unlock() {
	if vs.S.Free {
		m.real.Unlock()
		return
	}
	bad := false
	vs.Gate("Unlock", m, nil, func() {
		if !m.locked {
			bad = true
		}
		m.locked = false
	})
	if bad {
		panic("fatal error: sync: unlock of unlocked mutex")
	}
}

// RWMutex follows Go's writer preference: a blocked Lock call excludes new readers.
type RWMutex struct {
	readers int
	writer  bool
	wwait   int
	real    sync.RWMutex
}

func (m *RWMutex) Lock() {
	if vs.S.Free {
		m.real.Lock()
		return
	}
	m.wwait++
	vs.Gate("WLock", m, func() bool { return !m.writer && m.readers == 0 }, func() { m.writer = true; m.wwait-- })
}

func (m *RWMutex) TryLock() (ok bool) {
	if vs.S.Free {
		return m.real.TryLock()
	}
	vs.Gate("TryWLock", m, nil, func() {
		if !m.writer && m.readers == 0 {
			m.writer, ok = true, true
		}
	})
	return
}

func (m *RWMutex) Unlock() {
	if vs.S.Free {
		m.real.Unlock()
		return
	}
	bad := false
	vs.Gate("WUnlock", m, nil, func() { bad = !m.writer; m.writer = false })
	if bad {
		panic("fatal error: sync: Unlock of unlocked RWMutex")
	}
}

func (m *RWMutex) RLock() {
	if vs.S.Free {
		m.real.RLock()
		return
	}
	vs.Gate("RLock", m, func() bool { return !m.writer && m.wwait == 0 }, func() { m.readers++ })
}

func (m *RWMutex) TryRLock() (ok bool) {
	if vs.S.Free {
		return m.real.TryRLock()
	}
	vs.Gate("TryRLock", m, nil, func() {
		if !m.writer && m.wwait == 0 {
			m.readers++
			ok = true
		}
	})
	return
}

func (m *RWMutex) RUnlock() {
	if vs.S.Free {
		m.real.RUnlock()
		return
	}
	bad := false
	vs.Gate("RUnlock", m, nil, func() { bad = m.readers <= 0; m.readers-- })
	if bad {
		panic("fatal error: sync: RUnlock of unlocked RWMutex")
	}
}

type rlocker RWMutex

func (r *rlocker) Lock()   { (*RWMutex)(r).RLock() }
func (r *rlocker) Unlock() { (*RWMutex)(r).RUnlock() }

func (m *RWMutex) RLocker() Locker { return (*rlocker)(m) }

// Map: every operation is one atomic step (as sync.Map's are) and a scheduling point.
type Map struct {
	m    map[any]any
	real sync.Map
}

func (m *Map) init() {
	if m.m == nil {
		m.m = map[any]any{}
	}
}

func (m *Map) Load(k any) (v any, ok bool) {
	if vs.S.Free {
		return m.real.Load(k)
	}
	vs.Gate("Map.Load", m, nil, func() { v, ok = m.m[k] })
	return
}

func (m *Map) Store(k, v any) {
	if vs.S.Free {
		m.real.Store(k, v)
		return
	}
	vs.Gate("Map.Store", m, nil, func() { m.init(); m.m[k] = v })
}

func (m *Map) LoadOrStore(k, v any) (actual any, loaded bool) {
	if vs.S.Free {
		return m.real.LoadOrStore(k, v)
	}
	vs.Gate("Map.LoadOrStore", m, nil, func() {
		m.init()
		if actual, loaded = m.m[k]; !loaded {
			m.m[k] = v
			actual = v
		}
	})
	return
}

func (m *Map) LoadAndDelete(k any) (v any, loaded bool) {
	if vs.S.Free {
		return m.real.LoadAndDelete(k)
	}
	vs.Gate("Map.LoadAndDelete", m, nil, func() { v, loaded = m.m[k]; delete(m.m, k) })
	return
}

func (m *Map) Delete(k any) {
	if vs.S.Free {
		m.real.Delete(k)
		return
	}
	vs.Gate("Map.Delete", m, nil, func() { delete(m.m, k) })
}

func (m *Map) Swap(k, v any) (prev any, loaded bool) {
	if vs.S.Free {
		return m.real.Swap(k, v)
	}
	vs.Gate("Map.Swap", m, nil, func() { m.init(); prev, loaded = m.m[k]; m.m[k] = v })
	return
}

func (m *Map) CompareAndSwap(k, old, nw any) (ok bool) {
	if vs.S.Free {
		return m.real.CompareAndSwap(k, old, nw)
	}
	vs.Gate("Map.CAS", m, nil, func() {
		if cur, has := m.m[k]; has && cur == old {
			m.m[k] = nw
			ok = true
		}
	})
	return
}

func (m *Map) CompareAndDelete(k, old any) (ok bool) {
	if vs.S.Free {
		return m.real.CompareAndDelete(k, old)
	}
	vs.Gate("Map.CAD", m, nil, func() {
		if cur, has := m.m[k]; has && cur == old {
			delete(m.m, k)
			ok = true
		}
	})
	return
}

func (m *Map) Clear() {
	if vs.S.Free {
		m.real.Clear()
		return
	}
	vs.Gate("Map.Clear", m, nil, func() { m.m = nil })
}

// Range iterates over a snapshot in a deterministic (insertion-independent, key-sorted when
// keys are strings) order.
func (m *Map) Range(f func(k, v any) bool) {
	if vs.S.Free {
		m.real.Range(f)
		return
	}
	type kv struct{ k, v any }
	var snap []kv
	vs.Gate("Map.Range", m, nil, func() {
		for k, v := range m.m {
			snap = append(snap, kv{k, v})
		}
	})
	for i := 1; i < len(snap); i++ {
		for j := i; j > 0; j-- {
			a, ok1 := snap[j-1].k.(string)
			b, ok2 := snap[j].k.(string)
			if ok1 && ok2 && a > b {
				snap[j-1], snap[j] = snap[j], snap[j-1]
			} else {
				break
			}
		}
	}
	for _, e := range snap {
		if !f(e.k, e.v) {
			return
		}
	}
}
