module verif.local/vs

go 1.25
