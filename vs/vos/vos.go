// Package vos stands in for package os in cdr/cdrFile: WriteFile/ReadFile go to a
// per-process in-memory file table (16 worker processes would otherwise collide on
// /tmp/<supi>.cdr); everything else is the real os.  Directory semantics of the real
// file system are kept: writing below a directory that does not exist fails with ENOENT.
package vos

import (
	"io/fs"
	"os"
	"path/filepath"
	"sort"
	"syscall"

	"verif.local/vs"
)

type (
	File      = os.File
	FileMode  = os.FileMode
	FileInfo  = os.FileInfo
	PathError = os.PathError
)

var (
	ErrNotExist = os.ErrNotExist
	ErrExist    = os.ErrExist
	Stdout      = os.Stdout
	Stderr      = os.Stderr
	Args        = os.Args
)

const (
	O_RDONLY = os.O_RDONLY
	O_WRONLY = os.O_WRONLY
	O_RDWR   = os.O_RDWR
	O_APPEND = os.O_APPEND
	O_CREATE = os.O_CREATE
	O_TRUNC  = os.O_TRUNC
	ModePerm = os.ModePerm
)

// Files is the table; Writes counts WriteFile calls per path; Log is the write order.
var (
	Files  = map[string][]byte{}
	Writes = map[string]int{}
	Log    []string
	Real   = false // true: pass everything through to the real file system
	Hook   func(name string, data []byte)
)

var fsMon vs.Monitor

func Reset() { Files = map[string][]byte{}; Writes = map[string]int{}; Log = nil }

func dirOK(name string) error {
	d := filepath.Dir(name)
	if d == "/tmp" || d == "." || d == "/" {
		return nil
	}
	if st, err := os.Stat(d); err == nil && st.IsDir() {
		return nil
	}
	return &os.PathError{Op: "open", Path: name, Err: syscall.ENOENT}
}

func WriteFile(name string, data []byte, perm fs.FileMode) (err error) {
	if Real {
		return os.WriteFile(name, data, perm)
	}
	fsMon.Do("fs.Write", name, nil, func() {
		if err = dirOK(name); err != nil {
			return
		}
		Files[name] = append([]byte(nil), data...)
		Writes[name]++
		Log = append(Log, name)
		if Hook != nil {
			Hook(name, Files[name])
		}
	})
	return
}

func ReadFile(name string) (data []byte, err error) {
	if Real {
		return os.ReadFile(name)
	}
	fsMon.Do("fs.Read", name, nil, func() {
		b, ok := Files[name]
		if !ok {
			err = &os.PathError{Op: "open", Path: name, Err: syscall.ENOENT}
			return
		}
		data = append([]byte(nil), b...)
	})
	return
}

func Names() []string {
	var n []string
	for k := range Files {
		n = append(n, k)
	}
	sort.Strings(n)
	return n
}

func Create(name string) (*os.File, error)                      { return os.Create(name) }
func Open(name string) (*os.File, error)                        { return os.Open(name) }
func OpenFile(n string, f int, p os.FileMode) (*os.File, error) { return os.OpenFile(n, f, p) }
func Remove(name string) error                                  { return os.Remove(name) }
func RemoveAll(name string) error                               { return os.RemoveAll(name) }
func Stat(name string) (os.FileInfo, error)                     { return os.Stat(name) }
func MkdirAll(p string, m os.FileMode) error                    { return os.MkdirAll(p, m) }
func Mkdir(p string, m os.FileMode) error                       { return os.Mkdir(p, m) }
func Getenv(k string) string                                    { return os.Getenv(k) }
func Exit(c int)                                                { os.Exit(c) }
func IsNotExist(err error) bool                                 { return os.IsNotExist(err) }
func IsExist(err error) bool                                    { return os.IsExist(err) }
func TempDir() string                                           { return os.TempDir() }
func Rename(a, b string) error                                  { return os.Rename(a, b) }
func Getpid() int                                               { return os.Getpid() }
