// Package vos stands in for package os in cdr/cdrFile: WriteFile/ReadFile go to a
// per-process in-memory file table (16 worker processes would otherwise collide on
// /tmp/<supi>.cdr); everything else is the real os.  Directory semantics of the real
// file system are kept: writing below a directory that does not exist fails with ENOENT.
package vos

import (
	"io"
	"io/fs"
	"os"
	"path/filepath"
	"sort"
	"strings"
	"syscall"
	"time"

	"verif.local/vs"
)

type (
	FileMode  = os.FileMode
	FileInfo  = os.FileInfo
	PathError = os.PathError
)

var (
	ErrNotExist = os.ErrNotExist
	ErrExist    = os.ErrExist
	Stdout      = os.Stdout
	Stderr      = os.Stderr
	Args        = os.Args
)

const (
	O_RDONLY = os.O_RDONLY
	O_WRONLY = os.O_WRONLY
	O_RDWR   = os.O_RDWR
	O_APPEND = os.O_APPEND
	O_CREATE = os.O_CREATE
	O_TRUNC  = os.O_TRUNC
	ModePerm = os.ModePerm
)

// Files is the table; Writes counts WriteFile calls per path; Log is the write order.
var (
	Files  = map[string][]byte{}
	Writes = map[string]int{}
	Log    []string
	Real   = false // true: pass everything through to the real file system
	Hook   func(name string, data []byte)
)

var fsMon vs.Monitor

func Reset() { Files = map[string][]byte{}; Writes = map[string]int{}; Log = nil }

func dirOK(name string) error {
	// limits of the real file system that a file name derived from request data can hit
	if strings.IndexByte(name, 0) >= 0 {
		return &os.PathError{Op: "open", Path: name, Err: syscall.EINVAL}
	}
	if len(filepath.Base(name)) > 255 {
		return &os.PathError{Op: "open", Path: name, Err: syscall.ENAMETOOLONG}
	}
	d := filepath.Dir(name)
	if d == "/tmp" || d == "." || d == "/" {
		return nil
	}
	if st, err := os.Stat(d); err == nil && st.IsDir() {
		return nil
	}
	return &os.PathError{Op: "open", Path: name, Err: syscall.ENOENT}
}

func WriteFile(name string, data []byte, perm fs.FileMode) (err error) {
	if Real {
		return os.WriteFile(name, data, perm)
	}
	// os.WriteFile is open(O_TRUNC), write, close: between the two steps a reader finds an empty file
	fsMon.Do("fs.Trunc", name, nil, func() {
		if err = dirOK(name); err != nil {
			return
		}
		Files[name] = []byte{}
	})
	if err != nil {
		return
	}
	fsMon.Do("fs.Write", name, nil, func() {
		Files[name] = append([]byte(nil), data...)
		Writes[name]++
		Log = append(Log, name)
		if Hook != nil {
			Hook(name, Files[name])
		}
	})
	return
}

func ReadFile(name string) (data []byte, err error) {
	if Real {
		return os.ReadFile(name)
	}
	fsMon.Do("fs.Read", name, nil, func() {
		b, ok := Files[name]
		if !ok {
			err = &os.PathError{Op: "open", Path: name, Err: syscall.ENOENT}
			return
		}
		data = append([]byte(nil), b...)
	})
	return
}

func Names() []string {
	var n []string
	for k := range Files {
		n = append(n, k)
	}
	sort.Strings(n)
	return n
}

// File is an open handle on the file table with the semantics of *os.File that matter for a writer of CDR files:
// O_CREATE / O_EXCL / O_TRUNC / O_APPEND are honoured, writes land at the handle's offset and leave everything beyond
// what they cover untouched (a rewrite without truncation keeps the old tail), reads see the current content.
// Every operation is a gate; a handle that wrote something is reported to Hook (and counted as one write of the
// path) when it is closed.
type File struct {
	name   string
	off    int64
	flag   int
	dirty  bool
	closed bool
	real   *os.File
}

func Create(name string) (*File, error) {
	return OpenFile(name, os.O_RDWR|os.O_CREATE|os.O_TRUNC, 0o666)
}
func Open(name string) (*File, error) { return OpenFile(name, os.O_RDONLY, 0) }

func OpenFile(name string, flag int, perm os.FileMode) (f *File, err error) {
	if Real {
		rf, e := os.OpenFile(name, flag, perm)
		if e != nil {
			return nil, e
		}
		return &File{name: name, real: rf}, nil
	}
	fsMon.Do("fs.Open", name, nil, func() {
		if err = dirOK(name); err != nil {
			return
		}
		_, exists := Files[name]
		switch {
		case !exists && flag&os.O_CREATE == 0:
			err = &os.PathError{Op: "open", Path: name, Err: syscall.ENOENT}
			return
		case exists && flag&os.O_CREATE != 0 && flag&os.O_EXCL != 0:
			err = &os.PathError{Op: "open", Path: name, Err: syscall.EEXIST}
			return
		}
		f = &File{name: name, flag: flag}
		if !exists {
			Files[name] = []byte{}
			f.dirty = true
		}
		if flag&os.O_TRUNC != 0 && flag&(os.O_WRONLY|os.O_RDWR) != 0 {
			Files[name] = []byte{}
			f.dirty = true
		}
	})
	return
}

func (f *File) Name() string { return f.name }

func (f *File) writable() bool { return f.flag&(os.O_WRONLY|os.O_RDWR) != 0 }

func (f *File) writeAt(b []byte, off int64) {
	cur := Files[f.name]
	if need := int(off) + len(b); need > len(cur) {
		cur = append(cur, make([]byte, need-len(cur))...)
	}
	copy(cur[off:], b)
	Files[f.name] = cur
	f.dirty = true
}

func (f *File) Write(b []byte) (n int, err error) {
	if f.real != nil {
		return f.real.Write(b)
	}
	fsMon.Do("fs.Write", f.name, nil, func() {
		if f.closed || !f.writable() {
			err = &os.PathError{Op: "write", Path: f.name, Err: syscall.EBADF}
			return
		}
		if f.flag&os.O_APPEND != 0 {
			f.off = int64(len(Files[f.name]))
		}
		f.writeAt(b, f.off)
		f.off += int64(len(b))
		n = len(b)
	})
	return
}

func (f *File) WriteString(s string) (int, error) { return f.Write([]byte(s)) }

func (f *File) WriteAt(b []byte, off int64) (n int, err error) {
	if f.real != nil {
		return f.real.WriteAt(b, off)
	}
	fsMon.Do("fs.Write", f.name, nil, func() {
		if f.closed || !f.writable() {
			err = &os.PathError{Op: "write", Path: f.name, Err: syscall.EBADF}
			return
		}
		f.writeAt(b, off)
		n = len(b)
	})
	return
}

func (f *File) Read(b []byte) (n int, err error) {
	if f.real != nil {
		return f.real.Read(b)
	}
	fsMon.Do("fs.Read", f.name, nil, func() {
		cur := Files[f.name]
		if f.closed || f.flag&os.O_WRONLY != 0 {
			err = &os.PathError{Op: "read", Path: f.name, Err: syscall.EBADF}
			return
		}
		if f.off >= int64(len(cur)) {
			err = io.EOF
			return
		}
		n = copy(b, cur[f.off:])
		f.off += int64(n)
	})
	return
}

func (f *File) ReadAt(b []byte, off int64) (n int, err error) {
	if f.real != nil {
		return f.real.ReadAt(b, off)
	}
	fsMon.Do("fs.Read", f.name, nil, func() {
		cur := Files[f.name]
		if off >= int64(len(cur)) {
			err = io.EOF
			return
		}
		if n = copy(b, cur[off:]); n < len(b) {
			err = io.EOF
		}
	})
	return
}

func (f *File) Seek(offset int64, whence int) (int64, error) {
	if f.real != nil {
		return f.real.Seek(offset, whence)
	}
	switch whence {
	case io.SeekStart:
		f.off = offset
	case io.SeekCurrent:
		f.off += offset
	case io.SeekEnd:
		f.off = int64(len(Files[f.name])) + offset
	}
	if f.off < 0 {
		f.off = 0
		return 0, &os.PathError{Op: "seek", Path: f.name, Err: syscall.EINVAL}
	}
	return f.off, nil
}

func (f *File) Truncate(size int64) (err error) {
	if f.real != nil {
		return f.real.Truncate(size)
	}
	fsMon.Do("fs.Write", f.name, nil, func() {
		cur := Files[f.name]
		if int(size) <= len(cur) {
			Files[f.name] = cur[:size]
		} else {
			Files[f.name] = append(cur, make([]byte, int(size)-len(cur))...)
		}
		f.dirty = true
	})
	return
}

func (f *File) Sync() error {
	if f.real != nil {
		return f.real.Sync()
	}
	return nil
}

func (f *File) Chmod(os.FileMode) error { return nil }

type fileInfo struct {
	name string
	size int64
}

func (i fileInfo) Name() string       { return filepath.Base(i.name) }
func (i fileInfo) Size() int64        { return i.size }
func (i fileInfo) Mode() os.FileMode  { return 0o666 }
func (i fileInfo) ModTime() time.Time { return time.Time{} }
func (i fileInfo) IsDir() bool        { return false }
func (i fileInfo) Sys() any           { return nil }

func (f *File) Stat() (os.FileInfo, error) {
	if f.real != nil {
		return f.real.Stat()
	}
	return fileInfo{f.name, int64(len(Files[f.name]))}, nil
}

func (f *File) Close() (err error) {
	if f.real != nil {
		return f.real.Close()
	}
	fsMon.Do("fs.Close", f.name, nil, func() {
		if f.closed {
			err = &os.PathError{Op: "close", Path: f.name, Err: os.ErrClosed}
			return
		}
		f.closed = true
		if f.dirty {
			Writes[f.name]++
			Log = append(Log, f.name)
			if Hook != nil {
				Hook(f.name, append([]byte(nil), Files[f.name]...))
			}
		}
	})
	return
}

func Remove(name string) error {
	if _, ok := Files[name]; ok && !Real {
		delete(Files, name)
		return nil
	}
	return os.Remove(name)
}
func RemoveAll(name string) error { return os.RemoveAll(name) }
func Stat(name string) (os.FileInfo, error) {
	if b, ok := Files[name]; ok && !Real {
		return fileInfo{name, int64(len(b))}, nil
	}
	return os.Stat(name)
}
func MkdirAll(p string, m os.FileMode) error { return os.MkdirAll(p, m) }
func Mkdir(p string, m os.FileMode) error    { return os.Mkdir(p, m) }
func Getenv(k string) string                 { return os.Getenv(k) }
func Exit(c int)                             { os.Exit(c) }
func IsNotExist(err error) bool              { return os.IsNotExist(err) }
func IsExist(err error) bool                 { return os.IsExist(err) }
func TempDir() string                        { return os.TempDir() }
func Rename(a, b string) error               { return os.Rename(a, b) }
func Getpid() int                            { return os.Getpid() }
