// Package vs is the controlled scheduler ("gate scheduler") of the E1 world explorer.
//
// Every synchronisation or environment operation of the code under test (mutex, sync.Map,
// modelled network, modelled database, modelled file table) calls Gate: the goroutine parks
// on a private channel and the scheduler goroutine - the root goroutine of a
// testing/synctest bubble - decides who runs next.  synctest.Wait() gives exact
// quiescence ("every goroutine of the bubble is durably blocked"), the bubble's fake clock
// gives virtual time.  A schedule is the sequence of choices taken at the scheduling points;
// choice 0 is always the default (the thread that ran last if it is still enabled, otherwise
// the enabled thread with the smallest lineage key; TIME only when nothing is enabled).
package vs

import (
	"bytes"
	"fmt"
	"runtime"
	"runtime/debug"
	"sort"
	"strconv"
	"strings"
	"sync"
	"testing/synctest"
	"time"
)

type Op struct {
	Kind, Obj string
	Enabled   func() bool
	Apply     func()
}

type Thread struct {
	Key      string
	pending  *Op
	wake     chan struct{}
	Done     bool
	Daemon   bool
	nobj     int
	Panic    string
	delayed  bool // suspended by a DELAY deviation
	lastKind string
	epoch    int // scheduler step at which the pending operation was first seen (FIFO fairness of the default schedule)
	seen     bool
	quiet    int  // >0: gates of this thread run inline without a scheduling point (harness observation between requests)
	parked   bool // PARK deviation: lowest priority until nothing else is enabled
}

// Point is one scheduling point of an execution.
type Point struct {
	Enabled []string // alternatives in canonical order (threads..., then TIME, then DELAY when offered)
	Chosen  int
}

type Sched struct {
	mu       sync.Mutex
	Active   bool
	Fine     bool // statement-level scheduling points (Pt) are live
	Dup      bool // a DUP alternative (the peer retransmits the application answer about to be written twice more) is offered
	dupN     int
	Free     bool // free-running mode (race pass): no scheduler at all, modelled objects use the real primitives
	threads  []*Thread
	byGid    map[uint64]*Thread
	childCnt map[string]int
	objLabel map[any]string
	arrival  chan struct{}
	cur      *Thread
	Points   []Point
	Hashes   []uint64 // rolling hash of Enabled sets up to and including point i
	devs     map[int]int
	abort    bool

	Horizon  time.Duration // virtual-time budget of one execution, measured from Run()
	Delay    time.Duration // >0: a DELAY alternative (suspend the default thread that long) is offered
	Park     bool          // a PARK alternative (default thread gets lowest priority until nothing else is enabled) is offered
	StepCap  int
	Steps    int
	Trace    bool
	nowStart time.Time
}

var S = &Sched{}

func stackInfo() (gid uint64, creator string, parent uint64) {
	buf := make([]byte, 1<<16)
	n := runtime.Stack(buf, false)
	b := buf[:n]
	h := b[len("goroutine "):]
	i := bytes.IndexByte(h, ' ')
	gid, _ = strconv.ParseUint(string(h[:i]), 10, 64)
	if j := bytes.LastIndex(b, []byte("created by ")); j >= 0 {
		l := b[j+len("created by "):]
		if k := bytes.IndexByte(l, '\n'); k >= 0 {
			l = l[:k]
		}
		s := string(l)
		if k := strings.Index(s, " in goroutine "); k >= 0 {
			creator = s[:k]
			parent, _ = strconv.ParseUint(strings.TrimSpace(s[k+len(" in goroutine "):]), 10, 64)
		} else {
			creator = s
		}
	}
	return
}

func gidFast() uint64 {
	var buf [64]byte
	n := runtime.Stack(buf[:], false)
	h := buf[len("goroutine "):n]
	i := bytes.IndexByte(h, ' ')
	id, _ := strconv.ParseUint(string(h[:i]), 10, 64)
	return id
}

// Reset prepares the scheduler for one execution. devs maps point index -> non-default choice.
func Reset(devs map[int]int) {
	S.mu.Lock()
	defer S.mu.Unlock()
	S.Active = true
	S.threads = nil
	S.byGid = map[uint64]*Thread{}
	S.childCnt = map[string]int{}
	S.objLabel = map[any]string{}
	S.arrival = make(chan struct{}, 1)
	S.cur = nil
	S.Points = nil
	S.Hashes = nil
	S.dupN = 0
	S.devs = devs
	S.abort = false
	S.Steps = 0
	if S.Horizon == 0 {
		S.Horizon = 5 * time.Minute
	}
	if S.StepCap == 0 {
		S.StepCap = 200000
	}
}

func current() *Thread {
	g := gidFast()
	S.mu.Lock()
	defer S.mu.Unlock()
	th := S.byGid[g]
	if th == nil {
		_, creator, parent := stackInfo()
		pk := "root"
		if p := S.byGid[parent]; p != nil {
			pk = p.Key
		}
		base := creator + "<" + pk + ">"
		S.childCnt[base]++
		th = &Thread{Key: fmt.Sprintf("%s#%d", base, S.childCnt[base]), Daemon: true}
		S.threads = append(S.threads, th)
		S.byGid[g] = th
	}
	return th
}

// label returns a deterministic label for an object: first-toucher's key + ordinal.
func label(th *Thread, obj any) string {
	if obj == nil {
		return ""
	}
	if s, ok := obj.(string); ok {
		return s
	}
	if l, ok := S.objLabel[obj]; ok {
		return l
	}
	th.nobj++
	l := fmt.Sprintf("o%d@%s", th.nobj, ShortKey(th.Key))
	S.objLabel[obj] = l
	return l
}

func ShortKey(k string) string {
	if len(k) > 44 {
		// keep the innermost creator function name readable
		base := k
		if i := strings.IndexByte(base, '<'); i > 0 {
			base = base[:i]
		}
		if i := strings.LastIndexByte(base, '/'); i >= 0 {
			base = base[i+1:]
		}
		if len(base) > 28 {
			base = base[len(base)-28:]
		}
		return fmt.Sprintf("%s~%x", base, hash32(k))
	}
	return k
}

func hash32(s string) uint32 {
	var h uint32 = 2166136261
	for i := 0; i < len(s); i++ {
		h = (h ^ uint32(s[i])) * 16777619
	}
	return h
}

func hash64(h uint64, s string) uint64 {
	for i := 0; i < len(s); i++ {
		h = (h ^ uint64(s[i])) * 1099511628211
	}
	return (h ^ 0xff) * 1099511628211
}

// Go starts a named, non-daemon driver thread under scheduler control.
func Go(name string, fn func()) *Thread {
	th := &Thread{Key: name}
	S.mu.Lock()
	S.threads = append(S.threads, th)
	S.mu.Unlock()
	go func() {
		S.mu.Lock()
		S.byGid[gidFast()] = th
		S.mu.Unlock()
		defer func() {
			if r := recover(); r != nil {
				th.Panic = fmt.Sprintf("%v\n%s", r, debug.Stack())
			}
			S.mu.Lock()
			th.Done = true
			S.mu.Unlock()
		}()
		Gate("start", name, nil, nil)
		fn()
	}()
	return th
}

func (t *Thread) Finished() bool { S.mu.Lock(); defer S.mu.Unlock(); return t.Done }

// Gate parks the calling goroutine until the scheduler selects it; apply runs in the
// scheduler's critical section at that moment.
func Gate(kind string, obj any, enabled func() bool, apply func()) {
	if S.abort {
		runtime.Goexit()
	}
	if !S.Active {
		if apply != nil {
			apply()
		}
		return
	}
	th := current()
	if th.quiet > 0 {
		if enabled != nil && !enabled() {
			panic("vs: observation touched an object that is not available: " + kind)
		}
		if apply != nil {
			apply()
		}
		return
	}
	S.mu.Lock()
	op := &Op{Kind: kind, Obj: label(th, obj), Enabled: enabled, Apply: apply}
	th.pending = op
	th.wake = make(chan struct{})
	w := th.wake
	S.mu.Unlock()
	select {
	case S.arrival <- struct{}{}:
	default:
	}
	<-w
	if S.abort {
		runtime.Goexit()
	}
}

// Monitor gives a modelled object real blocking semantics in passive (free-running) mode: a mutex and a condition
// variable per object (or per connection), so that the race detector sees the happens-before edges the real thing
// would have and no more. In active mode Do is exactly Gate.
type Monitor struct {
	mu sync.Mutex
	c  *sync.Cond
}

func (mo *Monitor) Do(kind string, obj any, enabled func() bool, apply func()) {
	if !S.Free {
		Gate(kind, obj, enabled, apply)
		return
	}
	mo.mu.Lock()
	if mo.c == nil {
		mo.c = sync.NewCond(&mo.mu)
	}
	for enabled != nil && !enabled() {
		mo.c.Wait()
	}
	if apply != nil {
		apply()
	}
	mo.c.Broadcast()
	mo.mu.Unlock()
}

// Wake re-evaluates the waiters of the monitor (used at teardown in passive mode).
func (mo *Monitor) Wake(f func()) {
	mo.mu.Lock()
	if mo.c == nil {
		mo.c = sync.NewCond(&mo.mu)
	}
	if f != nil {
		f()
	}
	mo.c.Broadcast()
	mo.mu.Unlock()
}

// TakeDup returns (and clears) the number of extra copies the scheduler ordered for the write being applied.
func TakeDup() int {
	n := S.dupN
	S.dupN = 0
	return n
}

// Pt is a pure scheduling point at a statement of the code under test (inserted by tools/finepts). It exists only in
// fine mode (S.Fine, switched on by the scenarios that explore interleavings between synchronisation operations);
// everywhere else it returns at once.
func Pt(l string) {
	if !S.Fine || S.Free {
		return
	}
	Gate("pt", l, nil, nil)
}

// Quiet runs f - harness code observing the world between two requests, at quiescence - without creating
// scheduling points, so that an execution meets the same points whether or not it is observed.
func Quiet(f func()) {
	if !S.Active {
		f()
		return
	}
	th := current()
	th.quiet++
	defer func() { th.quiet-- }()
	f()
}

// CurHash is the fingerprint of the schedule so far: the rolling hash of every enabled set met (hex).
func CurHash() string {
	S.mu.Lock()
	defer S.mu.Unlock()
	if n := len(S.Hashes); n > 0 {
		return fmt.Sprintf("%016x", S.Hashes[n-1])
	}
	return "0"
}

// Quiesce parks the caller until no other thread is enabled (without letting time pass).
func Quiesce() { Gate("quiesce", "", nil, nil) }

type Result struct {
	Deadlock bool     // some driver thread can never finish (within the virtual horizon)
	Blocked  []string // what the unfinished driver threads wait for
	Holders  []string // other threads' pending/blocked operations at that moment
	Err      string   // engine-level problem (cap, replay divergence) - never a verdict
	VirtTime time.Duration
}

func desc(th *Thread) string {
	return ShortKey(th.Key) + ":" + th.pending.Kind + "(" + th.pending.Obj + ")"
}

func (s *Sched) waitArrival(d time.Duration) bool {
	select { // drain stale token
	case <-s.arrival:
	default:
	}
	// a thread may have arrived between the last Wait() and now only if it was released by
	// us; nobody was released since, so blocking here is safe.
	t := time.NewTimer(d)
	defer t.Stop()
	select {
	case <-s.arrival:
		return true
	case <-t.C:
		return false
	}
}

// Run drives the execution until every driver thread has finished, the horizon is reached
// or a cap is hit.
func Run() (res Result) {
	start := time.Now()
	S.nowStart = start
	defer func() { res.VirtTime = time.Since(start) }()
	for {
		synctest.Wait()
		S.Steps++
		if S.Steps > S.StepCap {
			res.Err = fmt.Sprintf("step cap %d reached at vt=%v", S.StepCap, time.Since(start))
			return
		}
		S.mu.Lock()
		allDone := true
		var en, qs, pk []*Thread
		var waiting []string
		native := false
		for _, th := range S.threads {
			if !th.Daemon && !th.Done {
				allDone = false
			}
			if th.Done {
				continue
			}
			if th.pending == nil {
				native = true
				continue
			}
			if !th.seen {
				th.seen = true
				th.epoch = S.Steps
			}
			if th.delayed {
				continue
			}
			if th.pending.Kind == "quiesce" {
				qs = append(qs, th)
				continue
			}
			if th.pending.Enabled == nil || th.pending.Enabled() {
				if th.parked {
					pk = append(pk, th)
				} else {
					en = append(en, th)
				}
			} else {
				waiting = append(waiting, desc(th))
			}
		}
		if allDone {
			S.mu.Unlock()
			return
		}
		npk := len(pk) // parked threads that could run: parking the default thread as well hands control back to the oldest of them
		if len(en) == 0 && len(pk) > 0 {
			en, npk = pk, 0 // parked threads resume when nothing else can run
		}
		if len(en) == 0 && len(qs) > 0 {
			en = qs
		}
		elapsed := time.Since(start)
		if elapsed > 2*S.Horizon && len(en) > 0 {
			S.mu.Unlock()
			res.Err = fmt.Sprintf("twice the virtual horizon %v reached with enabled threads (cap)", S.Horizon)
			return
		}
		if elapsed > S.Horizon && len(en) == 0 {
			res.Deadlock = true
			for _, th := range S.threads {
				if th.Done {
					continue
				}
				d := ShortKey(th.Key) + ":native"
				if th.pending != nil {
					d = desc(th)
				}
				if !th.Daemon {
					res.Blocked = append(res.Blocked, d)
				} else if th.pending != nil {
					res.Holders = append(res.Holders, d)
				}
			}
			S.mu.Unlock()
			return
		}
		// default schedule: the operation that has been pending longest runs first (FIFO, like a fair run queue);
		// operations first seen at the same scheduling step are ordered by lineage key
		sort.Slice(en, func(i, j int) bool {
			if en[i].epoch != en[j].epoch {
				return en[i].epoch < en[j].epoch
			}
			return en[i].Key < en[j].Key
		})
		names := make([]string, 0, len(en)+2)
		for _, th := range en {
			names = append(names, desc(th))
		}
		timeIdx, delayIdx, parkIdx := -1, -1, -1
		if len(en) == 0 || native {
			timeIdx = len(names)
			names = append(names, "TIME")
		}
		if len(en) > 0 && S.Delay > 0 {
			delayIdx = len(names)
			names = append(names, "DELAY")
		}
		if len(en)+npk > 1 && S.Park && !en[0].parked {
			parkIdx = len(names)
			names = append(names, "PARK")
		}
		dupIdx := -1
		if len(en) > 0 && S.Dup && en[0].pending.Kind == "net.WriteAns" {
			dupIdx = len(names)
			names = append(names, "DUP")
		}
		step := len(S.Points)
		choice := 0
		if c, ok := S.devs[step]; ok {
			choice = c
		}
		if choice >= len(names) {
			S.mu.Unlock()
			res.Err = fmt.Sprintf("replay divergence at point %d: choice %d of %d %v", step, choice, len(names), names)
			return
		}
		var h uint64 = 14695981039346656037
		if step > 0 {
			h = S.Hashes[step-1]
		}
		for _, n := range names {
			h = hash64(h, n)
		}
		S.Hashes = append(S.Hashes, h)
		pt := Point{Chosen: choice}
		pt.Enabled = names
		S.Points = append(S.Points, pt)
		if choice == dupIdx && dupIdx >= 0 {
			// the default thread runs, and its write is delivered three times
			S.dupN = 2
			choice = 0
		}
		switch {
		case choice < len(en):
			th := en[choice]
			S.cur = th
			if th.pending.Apply != nil {
				th.pending.Apply()
			}
			th.lastKind = th.pending.Kind
			th.pending = nil
			th.seen = false
			th.parked = false
			close(th.wake)
			S.mu.Unlock()
		case choice == timeIdx:
			S.cur = nil
			S.mu.Unlock()
			d := S.Horizon - elapsed + time.Second
			if len(en) > 0 {
				// TIME as a deviation: let the clock run to the next timer, at most one delay quantum
				// (with nothing else pending the default thread simply continues afterwards)
				q := S.Delay
				if q <= 0 {
					q = 6 * time.Second
				}
				d = min(d, q)
			}
			S.waitArrival(d)
		case choice == parkIdx:
			en[0].parked = true
			S.mu.Unlock()
		case choice == delayIdx:
			th := en[0]
			th.delayed = true
			S.cur = nil
			d := S.Delay
			S.mu.Unlock()
			go func() {
				time.Sleep(d)
				S.mu.Lock()
				th.delayed = false
				S.mu.Unlock()
				select {
				case S.arrival <- struct{}{}:
				default:
				}
			}()
		}
	}
}

// Abort ends the execution: every parked thread exits (runtime.Goexit) when woken.
func Abort() {
	S.mu.Lock()
	S.abort = true
	for _, th := range S.threads {
		if th.pending != nil {
			th.pending = nil
			close(th.wake)
		}
	}
	S.mu.Unlock()
}

// Passive switches gating off (observation phase); apply functions run inline.
func Passive() { S.mu.Lock(); S.Active = false; S.mu.Unlock() }

// Threads returns a description of all live threads (for resource accounting): key and state.
func Threads() (out []string) {
	S.mu.Lock()
	defer S.mu.Unlock()
	for _, th := range S.threads {
		if th.Done {
			continue
		}
		st := "native"
		if th.pending != nil {
			st = th.pending.Kind + "(" + th.pending.Obj + ")"
		}
		out = append(out, th.Key+" "+st)
	}
	sort.Strings(out)
	return
}

// LiveDaemons counts library threads that are alive (parked at a gate or blocked natively).
func LiveDaemons() (n int) {
	S.mu.Lock()
	defer S.mu.Unlock()
	for _, th := range S.threads {
		if th.Daemon && !th.Done {
			n++
		}
	}
	return
}

// MarkDone is called by library goroutine wrappers that know they have ended.
func Panics() (out []string) {
	S.mu.Lock()
	defer S.mu.Unlock()
	for _, th := range S.threads {
		if th.Panic != "" {
			out = append(out, th.Key+": "+th.Panic)
		}
	}
	return
}
