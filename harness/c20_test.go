//go:build verif && go1.23

package zzverif

import (
	"context"
	"encoding/json"
	"fmt"
	"os"
	"path/filepath"
	"sort"
	"strings"
	"sync"
	"testing"
	"time"

	"gopkg.in/yaml.v2"

	"github.com/fiorix/go-diameter/diam"
	"github.com/fiorix/go-diameter/diam/dict"

	chf_cgf "github.com/free5gc/chf/internal/cgf"
	chf_context "github.com/free5gc/chf/internal/context"
	"github.com/free5gc/chf/internal/sbi"
	"github.com/free5gc/chf/pkg/abmf"
	"github.com/free5gc/chf/pkg/factory"
	"github.com/free5gc/chf/pkg/rf"
	"github.com/free5gc/chf/pkg/service"
	"github.com/free5gc/util/mongoapi"
	"verif.local/vs"
	"verif.local/vs/vos"
)

// C20: validated configurations start without crashing; invalid ones are rejected.
// Bounded-exhaustive over YAML configurations derived from a valid baseline; every accepted
// configuration is taken through the real start-up sequence and one online-charging update.

type ymap = map[string]any

// buildConfig builds one configuration; the returned expectations say why it must be rejected (if at all).
func buildConfig(c *Chooser) (cfg ymap, mustReject []string) {
	tls := func(l string) any {
		switch c.Pick(4, l+".tls") {
		case 0:
			return ymap{"pem": certPem, "key": certKey}
		case 1:
			return nil // absent
		case 2:
			return ymap{"pem": certPem}
		default:
			return ymap{}
		}
	}
	put := func(m ymap, k string, v any) {
		if v != nil {
			m[k] = v
		}
	}
	diameter := func(l string, port int) any {
		if c.Pick(2, l) == 1 {
			mustReject = append(mustReject, "missing-section:"+l)
			return nil
		}
		d := ymap{"protocol": "tcp", "hostIPv4": "127.0.0.1"}
		switch c.Pick(5, l+".port") {
		case 0:
			d["port"] = port
		case 1:
			d["port"] = 1
		case 2:
			d["port"] = 65535
		case 3:
			d["port"] = 65536
		case 4:
			d["port"] = 0
		}
		if c.Pick(2, l+".protocol") == 1 {
			delete(d, "protocol")
		}
		if c.Pick(2, l+".hostIPv4") == 1 {
			delete(d, "hostIPv4")
		}
		put(d, "tls", tls(l))
		return d
	}
	conf := ymap{}
	if c.Pick(2, "chfName") == 0 {
		conf["chfName"] = "CHF"
	}
	if c.Pick(2, "sbi") == 0 {
		s := ymap{"registerIPv4": "127.0.0.1", "bindingIPv4": "127.0.0.1", "port": 8000}
		scheme := pick(c, "sbi.scheme", "http", "https", "ftp", "", "HTTP")
		s["scheme"] = scheme
		if scheme != "http" && scheme != "https" {
			mustReject = append(mustReject, "bad-scheme:"+scheme)
		}
		put(s, "tls", tls("sbi"))
		switch c.Pick(4, "sbi.port") {
		case 1:
			s["port"] = 65536
		case 2:
			delete(s, "port")
		case 3:
			s["port"] = 0
		}
		if c.Pick(2, "sbi.bindingIPv4") == 1 {
			delete(s, "bindingIPv4")
		}
		conf["sbi"] = s
	} else {
		mustReject = append(mustReject, "missing-section:sbi")
	}
	switch c.Pick(12, "serviceNameList") {
	case 7: // the same service twice in different spelling: rejected, or accepted and served - never accepted and fatal
		conf["serviceNameList"] = []string{"nchf-convergedcharging", "Nchf-ConvergedCharging"}
	case 8:
		conf["serviceNameList"] = []string{"NCHF-CONVERGEDCHARGING"}
	case 9:
		conf["serviceNameList"] = []string{"nchf-spendinglimitcontrol"}
	case 10: // a service that only answers "not implemented", listed twice
		conf["serviceNameList"] = []string{"nchf-offlineonlycharging", "nchf-convergedcharging", "nchf-offlineonlycharging"}
	case 11:
		conf["serviceNameList"] = []string{"nchf-spendinglimitcontrol", "nchf-spendinglimitcontrol"}
	case 0:
		conf["serviceNameList"] = []string{"nchf-convergedcharging"}
	case 1:
		conf["serviceNameList"] = []string{"nchf-convergedcharging", "nchf-offlineonlycharging", "nchf-spendinglimitcontrol"}
	case 2:
		conf["serviceNameList"] = []string{"nchf-bogus"}
		mustReject = append(mustReject, "unknown-service")
	case 3:
		conf["serviceNameList"] = []string{"nchf-convergedcharging", "nchf-bogus"}
		mustReject = append(mustReject, "unknown-service")
	case 4:
		conf["serviceNameList"] = []string{"nchf-offlineonlycharging", "nchf-spendinglimitcontrol", "nchf-convergedcharging2"}
		mustReject = append(mustReject, "unknown-service")
	case 5:
		conf["serviceNameList"] = []string{"nchf-convergedcharging", "nchf-convergedcharging"}
	case 6:
		mustReject = append(mustReject, "missing-section:serviceNameList")
	}
	switch c.Pick(3, "nrfUri") {
	case 0:
		conf["nrfUri"] = "http://127.0.0.10:8000"
	case 1:
	case 2:
		conf["nrfUri"] = "not a uri"
	}
	if c.Pick(2, "mongodb") == 0 {
		m := ymap{"name": "free5gc", "url": "mongodb://localhost:27017"}
		if c.Pick(2, "mongodb.url") == 1 {
			delete(m, "url")
		}
		conf["mongodb"] = m
	} else {
		mustReject = append(mustReject, "missing-section:mongodb")
	}
	put(conf, "rfDiameter", diameter("rfDiameter", 3868))
	put(conf, "abmfDiameter", diameter("abmfDiameter", 3869))
	if c.Pick(2, "cgf") == 0 {
		g := ymap{"enable": false, "hostIPv4": "127.0.0.1", "port": 2121, "listenPort": 2122, "passiveTransferPortRange": ymap{"start": 2123, "end": 2130}, "cdrFilePath": "/tmp"}
		put(g, "tls", tls("cgf"))
		if c.Pick(2, "cgf.passiveTransferPortRange") == 1 {
			delete(g, "passiveTransferPortRange")
		}
		if c.Pick(2, "cgf.hostIPv4") == 1 {
			delete(g, "hostIPv4")
		}
		if e := c.Pick(3, "cgf.enable"); e >= 1 {
			if e == 2 {
				delete(g, "tls") // enabled, and no certificate of its own
			}
			// the CDR transfer (FTP) server is started as well; a listening port of this process's own
			g["enable"] = true
			g["listenPort"] = 22000 + os.Getpid()%5000
			g["port"] = 22000 + os.Getpid()%5000
		}
		switch c.Pick(5, "cgf.ports") {
		case 1:
			g["port"] = 0
		case 2:
			g["listenPort"] = 65536
		case 3:
			g["passiveTransferPortRange"] = ymap{"start": 2130, "end": 2123}
		case 4:
			delete(g, "cdrFilePath")
			delete(g, "listenPort")
		}
		conf["cgf"] = g
	} else {
		mustReject = append(mustReject, "missing-section:cgf")
	}
	// optional numeric settings (used in arithmetic by the first online request): whatever validation lets through must work
	switch c.Pick(5, "volumeLimit") {
	case 0:
		conf["volumeLimit"] = 50000
	case 1:
	case 2:
		conf["volumeLimit"] = 0
		conf["volumeLimitPDU"] = 0
	case 3:
		conf["volumeLimit"] = -1
		conf["volumeLimitPDU"] = -1
	case 4:
		conf["volumeLimit"] = 2147483647
		conf["volumeLimitPDU"] = 2147483647
	}
	switch c.Pick(6, "volumeThresholdRate") {
	case 0:
		conf["volumeThresholdRate"] = 0.8
	case 1:
	case 2:
		conf["volumeThresholdRate"] = 0
	case 3:
		conf["volumeThresholdRate"] = 1.5
	case 4:
		conf["volumeThresholdRate"] = -0.5
	case 5:
		conf["volumeThresholdRate"] = 1e30
	}
	switch c.Pick(5, "quotaValidityTime") {
	case 1:
		conf["quotaValidityTime"] = 0
	case 2:
		conf["quotaValidityTime"] = -1
	case 3:
		conf["quotaValidityTime"] = 2147483647
		conf["reserveQuotaRatio"] = -5
	case 4:
		conf["reserveQuotaRatio"] = 0
	}
	if c.Pick(2, "nrfCertPem") == 1 {
		conf["nrfCertPem"] = "/nonexistent/nrf.pem" // (OAuth2 is not required by the NRF in this world)
	}
	cfg = ymap{}
	if c.Pick(2, "info") == 0 {
		cfg["info"] = ymap{"version": pick(c, "info.version", "1.0.3", "1.0.2", ""), "description": "CHF"}
	} else {
		mustReject = append(mustReject, "missing-section:info")
	}
	if c.Pick(2, "configuration") == 0 {
		cfg["configuration"] = conf
	} else {
		mustReject = append(mustReject, "missing-section:configuration")
	}
	switch c.Pick(3, "logger") {
	case 0:
		cfg["logger"] = ymap{"enable": false, "level": "error", "reportCaller": false}
	case 1:
		mustReject = append(mustReject, "missing-section:logger")
	case 2:
		cfg["logger"] = ymap{"enable": false, "level": "loud"}
	}
	return
}

type c20Args struct {
	Part  int `json:"part"`
	Parts int `json:"parts"`
	K     int `json:"k"`
	One   int `json:"one"` // >0: run only the configuration with this enumeration index (crash attribution)
}

type c20Out struct {
	Cases    int            `json:"cases"`
	Accepted int            `json:"accepted"`
	Rejected int            `json:"rejected"`
	Finds    []Finding      `json:"finds"`
	Rules    map[string]int `json:"rules"`
	Samples  []string       `json:"samples"`
	LastIdx  int            `json:"lastIdx"`
}

func c20Class(devs []string) string {
	var ks []string
	for _, d := range devs {
		ks = append(ks, d[:strings.Index(d, "=")])
	}
	sort.Strings(ks)
	return strings.Join(ks, "+")
}

func c20Job(t *testing.T, raw json.RawMessage) (any, error) {
	var a c20Args
	json.Unmarshal(raw, &a)
	out := c20Out{Rules: map[string]int{}}
	find := func(rule, d string) {
		out.Rules[rule]++
		if out.Rules[rule] <= 3 {
			out.Finds = append(out.Finds, Finding{rule, d})
		}
	}
	dir := filepath.Join(verifDir, ".work", fmt.Sprintf("c20-%d", os.Getpid()))
	os.MkdirAll(dir, 0o755)
	defer os.RemoveAll(dir)
	marker := filepath.Join(buildDir, "logs", fmt.Sprintf("c20-current-%d-%d.txt", a.Part, a.Parts))
	var cur ymap
	var must []string
	idx := 0
	Enumerate(a.K, func(c *Chooser) { cur, must = buildConfig(c) }, func(c *Chooser) bool {
		idx++
		if a.One > 0 && idx != a.One {
			return true
		}
		if a.One == 0 && (idx%a.Parts != a.Part || idx <= c20After) {
			return true
		}
		out.Cases++
		out.LastIdx = idx
		devs := c.Deviations()
		desc := fmt.Sprintf("configuration #%d %v", idx, devs)
		y, _ := yaml.Marshal(cur)
		path := filepath.Join(dir, "chfcfg.yaml")
		os.WriteFile(path, y, 0o644)
		os.WriteFile(marker, []byte(fmt.Sprintf("%d %v", idx, devs)), 0o644) // which configuration was being started, should the process die
		var cfg *factory.Config
		var rerr error
		func() {
			defer func() {
				if r := recover(); r != nil {
					rerr = fmt.Errorf("ReadConfig panicked: %v", r)
					find("validation-panics/"+c20Class(devs), desc+": "+fmt.Sprint(r))
				}
			}()
			cfg, rerr = factory.ReadConfig(path)
		}()
		if rerr != nil {
			out.Rejected++
			return true
		}
		out.Accepted++
		if len(must) > 0 {
			find("invalid-configuration-accepted/"+strings.Split(must[0], ":")[0]+"/"+c20Class(devs), fmt.Sprintf("%s was accepted by validation although it has %v", desc, must))
		}
		// the real start-up sequence + one online update
		crash := c20Start(t, cfg)
		if crash == "" && cfg.Configuration.Cgf != nil && cfg.Configuration.Cgf.Enable {
			crash = c20StartCgf(cfg)
		}
		if crash != "" {
			find("accepted-configuration-crashes/"+c20Class(devs), desc+": "+oneLine(crash, 260))
		}
		if len(out.Samples) < 2 && len(devs) == 2 {
			out.Samples = append(out.Samples, desc+" accepted, start-up: "+map[bool]string{true: "ok", false: "crash"}[crash == ""])
		}
		return true
	})
	os.Remove(marker)
	return out, nil
}

// c20StartCgf: what ChfApp.Start does for an enabled CDR transfer: cgf.OpenServer (real FTP server on loopback, outside
// the modelled world; stopped again at once). Only a panic counts.
func c20StartCgf(cfg *factory.Config) (crash string) {
	defer func() {
		if r := recover(); r != nil {
			crash = fmt.Sprintf("panic while starting the CDR transfer server: %v", r)
		}
	}()
	factory.ChfConfig = cfg
	ctx, cancel := context.WithCancel(context.Background())
	var wg sync.WaitGroup
	wg.Add(1)
	chf_cgf.OpenServer(ctx, &wg)
	time.Sleep(30 * time.Millisecond)
	cancel()
	time.Sleep(30 * time.Millisecond)
	chf_cgf.CGFEnable = false
	return
}

// c20Start: NewApp + what ChfApp.Start does before it blocks (without NRF registration and FTP), then a create
// and an online update through the router. Returns a description of the first panic, "" if none.
func c20Start(t *testing.T, cfg *factory.Config) (crash string) {
	o := runWorldCustom(t, func(ctx context.Context) {
		vs.Go("T1", func() {
			defer func() {
				if r := recover(); r != nil {
					crash = fmt.Sprintf("panic during start-up: %v", r)
				}
			}()
			factory.ChfConfig = cfg
			resetGlobalContext()
			app, err := service.NewApp(ctx, cfg, "")
			if err != nil || app == nil {
				crash = fmt.Sprintf("NewApp failed: %v", err)
				return
			}
			if cfg.Configuration.Cgf.Enable { // ChfApp.Start reads this unconditionally
				_ = 0
			}
			var wg sync.WaitGroup
			wg.Add(2)
			rf.OpenServer(ctx, &wg)
			abmf.OpenServer(ctx, &wg)
			mongoapi.Docs[chargingColl] = []map[string]interface{}{{"ueId": supiA, "ratingGroup": int32(1), "quota": "1000", "unitCost": "2"}}
			vs.Quiesce()
			srv, err := sbi.NewServer(&stubApp{p: app.Processor()}, "")
			if err != nil {
				crash = "sbi.NewServer: " + err.Error()
				return
			}
			w := &World{Router: sbi.VerifRouter(srv)}
			hasCC := false
			for _, s := range cfg.Configuration.ServiceNameList {
				if s == "nchf-convergedcharging" {
					hasCC = true
				}
			}
			if hasCC {
				h := w.ExecOps([]string{supiA}, []Op{mkCreate(0, "smf1"), usageOp("update", 0, 1, 100, 0, 5)}, 99, false)
				for _, st := range h.Steps {
					if st.Resp.Code >= 500 || st.Resp.Panic != "" {
						crash = fmt.Sprintf("%s answered %d %s %s", st.Op.K, st.Resp.Code, oneLine(st.Resp.Body, 80), st.Resp.Panic)
					}
				}
			}
			sbi.VerifStartServer(srv)
		})
	})
	if crash == "" && o.Panic != "" {
		crash = "panic: " + o.Panic
	}
	if crash == "" && len(o.ThPanics) > 0 {
		crash = o.ThPanics[0]
	}
	if crash == "" && o.Res.Deadlock {
		crash = fmt.Sprint("blocked forever: ", o.Res.Blocked)
	}
	return
}

func init() {
	jobHandlers["c20"] = c20Job
	checks["C20"] = func(t *testing.T) int {
		rep := NewReport("C20")
		pool := NewPool(0)
		k, parts := 2, 48
		if rep.Tier == "thorough" {
			k, parts = 3, 256
		}
		var jobs []Job
		for i := 0; i < parts; i++ {
			jobs = append(jobs, Job{Kind: "c20", Args: mustJSON(c20Args{Part: i, Parts: parts, K: k})})
		}
		total := c20Out{Rules: map[string]int{}}
		exhaustive := true
		var crashed []int
		res := pool.RunAll(jobs)
		for i, r := range res {
			if r.Crash != "" {
				crashed = append(crashed, i)
				continue
			}
			if r.Err != "" {
				rep.EngineError(r.Err)
				exhaustive = false
				continue
			}
			var o c20Out
			json.Unmarshal(r.Out, &o)
			total.Cases += o.Cases
			total.Accepted += o.Accepted
			total.Rejected += o.Rejected
			total.Samples = append(total.Samples, o.Samples...)
			for kk, v := range o.Rules {
				total.Rules[kk] += v
			}
			for _, f := range o.Finds {
				rep.Finding(f.Rule, f.Detail, map[string]any{"job": json.RawMessage(jobs[i].Args), "kind": "c20", "case": f.Detail})
			}
		}
		// a batch whose process died: find the configurations that kill the process, one by one
		for _, i := range crashed {
			var a c20Args
			json.Unmarshal(jobs[i].Args, &a)
			marker := filepath.Join(buildDir, "logs", fmt.Sprintf("c20-current-%d-%d.txt", a.Part, a.Parts))
			skipTo := 0
			for round := 0; round < 400; round++ {
				b, _ := os.ReadFile(marker)
				var idx int
				var devs string
				fmt.Sscanf(string(b), "%d", &idx)
				if j := strings.Index(string(b), " "); j > 0 {
					devs = string(b[j+1:])
				}
				if idx <= skipTo {
					break
				}
				cls := strings.NewReplacer("[", "", "]", "", " ", "+").Replace(devs)
				cls = stripAlts(cls)
				rep.Finding("accepted-configuration-kills-process/"+cls, fmt.Sprintf("configuration #%d %s was accepted by validation and then the process died during start-up (unrecovered panic in a goroutine, log.Fatal or os.Exit): %s", idx, devs, oneLine(res[i].Crash, 300)),
					map[string]any{"job": mustJSON(c20Args{Parts: a.Parts, Part: a.Part, K: a.K, One: idx}), "kind": "c20", "case": devs})
				skipTo = idx
				// continue the batch behind the configuration that killed the process
				rr := NewPool(1).RunAll([]Job{{Kind: "c20rest", Args: mustJSON(map[string]any{"part": a.Part, "parts": a.Parts, "k": a.K, "after": idx})}})
				if rr[0].Crash == "" {
					var o c20Out
					json.Unmarshal(rr[0].Out, &o)
					total.Cases += o.Cases
					total.Accepted += o.Accepted
					total.Rejected += o.Rejected
					for kk, v := range o.Rules {
						total.Rules[kk] += v
					}
					for _, f := range o.Finds {
						rep.Finding(f.Rule, f.Detail, map[string]any{"job": json.RawMessage(jobs[i].Args), "kind": "c20", "case": f.Detail})
					}
					break
				}
				res[i] = rr[0]
			}
		}
		if len(total.Samples) > 4 {
			total.Samples = total.Samples[:4]
		}
		rep.Cov["states"] = total.Cases
		rep.Cov["transitions"] = total.Cases
		rep.Cov["traces_validated_against_impl"] = total.Accepted
		rep.Cov["evaluations"] = total.Cases
		rep.Cov["distinct_nontrivial"] = total.Cases
		rep.Cov["rule"] = "YAML configurations: valid baseline + every single + every pair (thorough: triple) of deviations over: each section/field present or absent (info, configuration, logger, chfName, sbi and its fields, tls blocks complete/absent/partial/empty for sbi, rfDiameter, abmfDiameter, cgf; mongodb; rfDiameter; abmfDiameter; cgf), scheme in {http, https, ftp, '', HTTP}, service lists (valid, unknown first/later, duplicate, missing), ports {valid,0,1,65535,65536}, nrfUri, versions, log levels; each read by factory.ReadConfig; each accepted one started through service.NewApp, rf.OpenServer, abmf.OpenServer, sbi.NewServer, a create and an online update through the router, and the real startServer"
		rep.Cov["accepted"] = total.Accepted
		rep.Cov["rejected"] = total.Rejected
		rep.Cov["deviation_bound"] = k
		rep.Cov["batches_whose_process_died"] = len(crashed)
		rep.Cov["finding_counts"] = total.Rules
		rep.Cov["exhaustive"] = exhaustive
		if len(total.Samples) == 0 {
			total.Samples = []string{"(none)"}
		}
		rep.Cov["samples"] = total.Samples
		return rep.Finish()
	}
	jobHandlers["c20rest"] = func(t *testing.T, raw json.RawMessage) (any, error) {
		var m struct{ Part, Parts, K, After int }
		json.Unmarshal(raw, &m)
		c20After = m.After
		defer func() { c20After = 0 }()
		return c20Job(t, mustJSON(c20Args{Part: m.Part, Parts: m.Parts, K: m.K}))
	}
}

var c20After int

func stripAlts(s string) string {
	var out []string
	for _, p := range strings.Split(s, "+") {
		if i := strings.Index(p, "="); i > 0 {
			p = p[:i]
		}
		if p != "" {
			out = append(out, p)
		}
	}
	sort.Strings(out)
	return strings.Join(out, "+")
}

// runWorldCustom: like runWorld but the caller performs the whole set-up (used by C20, where the configuration is the input).
func runWorldCustom(t *testing.T, body func(ctx context.Context)) Outcome {
	return runWorldWith(t, WorldCfg{HorizonS: 120}, nil, body)
}

var _ = diam.MemReset
var _ = dict.ResetDefault
var _ = vos.Reset
var _ = chf_context.GetSelf
