//go:build verif && go1.23

package zzverif

import (
	"bytes"
	"context"
	"crypto/ecdsa"
	"crypto/elliptic"
	"crypto/rand"
	"crypto/x509"
	"crypto/x509/pkix"
	"encoding/json"
	"encoding/pem"
	"fmt"
	"io"
	"math/big"
	"net/http"
	"net/http/httptest"
	"os"
	"path/filepath"
	"reflect"
	"runtime"
	"sort"
	"strings"
	"sync"
	"testing"
	"testing/synctest"
	"time"

	"github.com/fiorix/go-diameter/diam"
	"github.com/fiorix/go-diameter/diam/dict"
	"github.com/gin-gonic/gin"
	"github.com/h2non/gock"
	"github.com/jlaffaye/ftp"
	"github.com/sirupsen/logrus"

	"github.com/free5gc/chf/cdr/asn"
	"github.com/free5gc/chf/cdr/cdrType"
	chf_cgf "github.com/free5gc/chf/internal/cgf"
	chf_context "github.com/free5gc/chf/internal/context"
	"github.com/free5gc/chf/internal/logger"
	"github.com/free5gc/chf/internal/sbi"
	"github.com/free5gc/chf/internal/sbi/consumer"
	"github.com/free5gc/chf/internal/sbi/processor"
	"github.com/free5gc/chf/pkg/abmf"
	"github.com/free5gc/chf/pkg/factory"
	"github.com/free5gc/chf/pkg/rf"
	"github.com/free5gc/openapi"
	"github.com/free5gc/util/mongoapi"
	"verif.local/vs"
	"verif.local/vs/vos"
)

const chargingColl = "policyData.ues.chargingData"

// ---------------------------------------------------------------------------------------
// process-wide initialisation of a worker

var (
	certPem, certKey string
	notesMu          sync.Mutex
	notes            []Note
)

// reentrantConsumer is what the consumer at smf-reentrant.example does when it receives a notification (set by the
// history executor: an update of the subscriber's first live session, through the world's router).
var reentrantConsumer func()

// reentrantFixed: the scenario has installed its own consumer reaction for the whole execution (concurrent scenarios:
// the history executor must not replace or remove it)
var reentrantFixed bool

type Note struct {
	Method, URL, Body string
}

func ensureCert() {
	dir := filepath.Join(buildDir, "certs")
	certPem, certKey = filepath.Join(dir, "c.pem"), filepath.Join(dir, "c.key")
	if _, err := os.Stat(certKey); err == nil {
		return
	}
	os.MkdirAll(dir, 0o755)
	key, _ := ecdsa.GenerateKey(elliptic.P256(), rand.Reader)
	tmpl := x509.Certificate{SerialNumber: big.NewInt(1), Subject: pkix.Name{CommonName: "chf-verif"},
		NotBefore: time.Date(1999, 1, 1, 0, 0, 0, 0, time.UTC), NotAfter: time.Date(2099, 1, 1, 0, 0, 0, 0, time.UTC)}
	der, _ := x509.CreateCertificate(rand.Reader, &tmpl, &tmpl, &key.PublicKey, key)
	kb, _ := x509.MarshalECPrivateKey(key)
	tmp := fmt.Sprintf("%s.%d", certPem, os.Getpid())
	os.WriteFile(tmp, pem.EncodeToMemory(&pem.Block{Type: "CERTIFICATE", Bytes: der}), 0o600)
	os.Rename(tmp, certPem)
	tmp = fmt.Sprintf("%s.%d", certKey, os.Getpid())
	os.WriteFile(tmp, pem.EncodeToMemory(&pem.Block{Type: "EC PRIVATE KEY", Bytes: kb}), 0o600)
	os.Rename(tmp, certKey)
}

var workerInitOnce sync.Once

func workerInit() {
	workerInitOnce.Do(func() {
		logger.Log.SetLevel(logrus.PanicLevel)
		logger.Log.SetOutput(io.Discard)
		gin.SetMode(gin.ReleaseMode)
		gin.DefaultWriter = io.Discard
		gin.DefaultErrorWriter = io.Discard
		ensureCert()
		// outgoing notifications: intercepted at the HTTP client, never reach a network
		openapi.InterceptH2CClient()
		for _, h := range []string{"http://smf-a.example", "http://smf-b.example", "http://smf-c.example"} {
			gock.New(h).Post("/notify").Persist().Reply(204)
		}
		// consumers that answer the notification in other ways (the CHF must still have sent exactly one)
		gock.New("http://smf-400.example").Post("/notify").Persist().Reply(400).JSON(map[string]any{"status": 400, "title": "Bad Request"})
		gock.New("http://smf-404.example").Post("/notify").Persist().Reply(404).JSON(map[string]any{"status": 404})
		gock.New("http://smf-500.example").Post("/notify").Persist().Reply(500)
		gock.New("http://smf-200.example").Post("/notify").Persist().Reply(200)
		// a consumer that reacts to the notification at once: it sends an update for the session before it answers
		gock.New("http://smf-reentrant.example").Post("/notify").Persist().AddMatcher(func(req *http.Request, _ *gock.Request) (bool, error) {
			if f := reentrantConsumer; f != nil {
				f()
			}
			return true, nil
		}).Reply(204)
		gock.Observe(func(req *http.Request, m gock.Mock) {
			var body []byte
			if req.Body != nil {
				body, _ = io.ReadAll(req.Body)
				req.Body = io.NopCloser(bytes.NewReader(body))
			}
			notesMu.Lock()
			notes = append(notes, Note{req.Method, req.URL.String(), string(body)})
			notesMu.Unlock()
		})
	})
}

// ---------------------------------------------------------------------------------------
// world configuration

type Account struct {
	Supi     string `json:"supi"`
	RG       int32  `json:"rg"`
	Quota    string `json:"quota"`
	UnitCost string `json:"unitCost"`
}

type WorldCfg struct {
	Accounts   []Account `json:"accounts"`
	LocalSeq   uint64    `json:"localSeq,omitempty"`
	Services   []string  `json:"services,omitempty"`
	NoServices bool      `json:"noServices,omitempty"`
	OAuth      bool      `json:"oauth,omitempty"`
	NrfCert    string    `json:"nrfCert,omitempty"`
	HorizonS   int       `json:"horizonS,omitempty"`
	Cgf        bool      `json:"cgf,omitempty"` // CDR transfer enabled, towards a modelled FTP server
	DelayMs    int       `json:"delayMs,omitempty"`
	VolLimit   int32     `json:"volLimit,omitempty"`
	VolLimPDU  int32     `json:"volLimPDU,omitempty"`
	QVT        int32     `json:"qvt,omitempty"`
	NoRF       bool      `json:"noRF,omitempty"`
	NoABMF     bool      `json:"noABMF,omitempty"`
	StepCap    int       `json:"stepCap,omitempty"`
	RfPort     int       `json:"rfPort,omitempty"` // Diameter ports (real-stack runs use fresh ones per world)
	AbmfPort   int       `json:"abmfPort,omitempty"`
}

type stubApp struct{ p *processor.Processor }

func (a *stubApp) SetLogEnable(bool)                {}
func (a *stubApp) SetLogLevel(string)               {}
func (a *stubApp) SetReportCaller(bool)             {}
func (a *stubApp) Start()                           {}
func (a *stubApp) Terminate()                       {}
func (a *stubApp) Context() *chf_context.CHFContext { return chf_context.GetSelf() }
func (a *stubApp) Config() *factory.Config          { return factory.ChfConfig }
func (a *stubApp) Consumer() *consumer.Consumer     { return nil }
func (a *stubApp) Processor() *processor.Processor  { return a.p }
func (a *stubApp) CancelContext() context.Context   { return context.Background() }

type World struct {
	Cfg    WorldCfg
	P      *processor.Processor
	Router *gin.Engine
	Start  time.Time
	bubble string
}

func baseConfig(cfg WorldCfg) *factory.Config {
	tls := &factory.Tls{Pem: certPem, Key: certKey}
	rfPort, abmfPort := 3868, 3869
	if cfg.RfPort > 0 {
		rfPort = cfg.RfPort
	}
	if cfg.AbmfPort > 0 {
		abmfPort = cfg.AbmfPort
	}
	svcs := cfg.Services
	if svcs == nil && !cfg.NoServices {
		svcs = []string{"nchf-convergedcharging", "nchf-offlineonlycharging", "nchf-spendinglimitcontrol"}
	}
	return &factory.Config{
		Info: &factory.Info{Version: "1.0.3"},
		Configuration: &factory.Configuration{
			ChfName: "CHF", Sbi: &factory.Sbi{Scheme: "http", RegisterIPv4: "127.0.0.1", BindingIPv4: "127.0.0.1", Port: 8000},
			ServiceNameList:     svcs,
			NrfUri:              "http://127.0.0.10:8000",
			NrfCertPem:          cfg.NrfCert,
			Mongodb:             &factory.Mongodb{Name: "free5gc", Url: "mongodb://localhost:27017"},
			RfDiameter:          &factory.Diameter{Protocol: "tcp", HostIPv4: "127.0.0.1", Port: rfPort, Tls: tls},
			AbmfDiameter:        &factory.Diameter{Protocol: "tcp", HostIPv4: "127.0.0.1", Port: abmfPort, Tls: tls},
			Cgf:                 &factory.Cgf{HostIPv4: "127.0.0.1", Port: 2121, ListenPort: 2122},
			VolumeLimit:         cfg.VolLimit,
			VolumeLimitPDU:      cfg.VolLimPDU,
			QuotaValidityTime:   cfg.QVT,
			VolumeThresholdRate: 0.8,
		},
		Logger: &factory.Logger{Level: "error"},
	}
}

func resetGlobalContext() {
	c := chf_context.GetSelf()
	*c = chf_context.CHFContext{}
}

// Outcome of one execution.
type Outcome struct {
	Res      vs.Result
	Points   []vs.Point
	Hashes   []uint64
	Panic    string   // panic in set-up or engine
	ThPanics []string // panics that escaped driver threads
	Obs      any
}

func bubbleID() string {
	buf := make([]byte, 256)
	n := runtime.Stack(buf, false)
	h := string(buf[:n])
	if i := strings.Index(h, "synctest bubble "); i >= 0 {
		h = h[i+len("synctest bubble "):]
		if j := strings.IndexAny(h, "]:,"); j >= 0 {
			return h[:j]
		}
	}
	return ""
}

// Goroutines counts the goroutines of the current bubble (exact: parsed from a full stack dump).
func (w *World) Goroutines() int {
	buf := make([]byte, 4<<20)
	n := runtime.Stack(buf, true)
	return strings.Count(string(buf[:n]), "synctest bubble "+w.bubble+"]")
}

// runWorld builds a fresh world, runs body in the set-up thread T0 (which may start driver
// threads with vs.Go) under the schedule given by devs, and finally calls observe with the
// scheduler passive.
func runWorld(t *testing.T, cfg WorldCfg, devs map[int]int, body func(w *World), observe func(w *World) any) (o Outcome) {
	var w *World
	o = runWorldWith(t, cfg, devs, func(ctx context.Context) {
		w = &World{Cfg: cfg, Start: time.Now(), bubble: bubbleID()}
		factory.ChfConfig = baseConfig(cfg)
		vs.Go("T0", func() {
			resetGlobalContext()
			chf_context.Init()
			self := chf_context.GetSelf()
			reflect.ValueOf(self).Elem().FieldByName("LocalRecordSequenceNumber").SetUint(cfg.LocalSeq) // (by reflection: the harness must build whatever the counter's width)
			self.OAuth2Required = cfg.OAuth
			cgfSetup(cfg)
			var wg sync.WaitGroup
			if !cfg.NoRF {
				wg.Add(1)
				rf.OpenServer(ctx, &wg)
			}
			if !cfg.NoABMF {
				wg.Add(1)
				abmf.OpenServer(ctx, &wg)
			}
			docs := []map[string]interface{}{}
			for _, a := range cfg.Accounts {
				docs = append(docs, map[string]interface{}{"ueId": a.Supi, "ratingGroup": a.RG, "quota": a.Quota, "unitCost": a.UnitCost})
			}
			mongoapi.Docs[chargingColl] = docs
			p, _ := processor.NewProcessor(nil)
			w.P = p
			srv, err := sbi.NewServer(&stubApp{p: p}, "")
			if err != nil {
				panic("sbi.NewServer: " + err.Error())
			}
			w.Router = sbi.VerifRouter(srv)
			body(w)
		})
	}, func() any {
		if observe != nil && w != nil {
			return observe(w)
		}
		return nil
	})
	return
}

// runWorldWith resets every double, runs start (which must create the driver threads with vs.Go) inside a fresh
// synctest bubble under the schedule devs, then observe with the scheduler passive, then tears everything down.
func runWorldWith(t *testing.T, cfg WorldCfg, devs map[int]int, start func(ctx context.Context), observe ...func() any) (o Outcome) {
	defer func() {
		if r := recover(); r != nil {
			if s := fmt.Sprint(r); !strings.Contains(s, "deadlock: main bubble") && !strings.Contains(s, "blocked goroutines remain") {
				o.Panic = s
			}
		}
	}()
	synctest.Test(t, func(t *testing.T) {
		defer func() {
			if r := recover(); r != nil {
				buf := make([]byte, 1<<13)
				buf = buf[:runtime.Stack(buf, false)]
				o.Panic = fmt.Sprintf("%v\n%s", r, buf)
				vs.Abort()
			}
		}()
		diam.MemReset()
		dict.ResetDefault()
		mongoapi.Reset()
		vos.Reset()
		notesMu.Lock()
		notes = nil
		notesMu.Unlock()
		vs.S.Horizon = 5 * time.Minute
		if cfg.HorizonS > 0 {
			vs.S.Horizon = time.Duration(cfg.HorizonS) * time.Second
		}
		vs.S.Delay = time.Duration(cfg.DelayMs) * time.Millisecond
		vs.S.StepCap = cfg.StepCap
		vs.Reset(devs)
		ctx, cancel := context.WithCancel(context.Background())
		start(ctx)
		o.Res = vs.Run()
		o.Points = vs.S.Points
		o.Hashes = vs.S.Hashes
		vs.Passive()
		o.ThPanics = vs.Panics()
		for _, ob := range observe {
			func() {
				defer func() {
					if r := recover(); r != nil {
						o.Panic = fmt.Sprintf("observe panic: %v", r)
					}
				}()
				o.Obs = ob()
			}()
		}
		vs.Abort()
		cancel()
		diam.MemCloseAll()
	})
	return
}

// ---------------------------------------------------------------------------------------
// HTTP driver

type HTTPResp struct {
	Code     int    `json:"code"`
	Location string `json:"loc,omitempty"`
	Body     string `json:"body,omitempty"`
	Panic    string `json:"panic,omitempty"`
}

func (w *World) Do(method, path string, body any, hdr map[string]string) (r HTTPResp) {
	var buf []byte
	switch b := body.(type) {
	case nil:
	case string:
		buf = []byte(b)
	case []byte:
		buf = b
	default:
		buf, _ = json.Marshal(body)
	}
	req := httptest.NewRequest(method, path, bytes.NewReader(buf))
	req.Header.Set("Content-Type", "application/json")
	for k, v := range hdr {
		if k == "#cancelled" {
			// the sender has already given up (stream reset, connection closed): the request context is done
			ctx, cancel := context.WithCancel(req.Context())
			cancel()
			req = req.WithContext(ctx)
			continue
		}
		if i := strings.Index(k, "#"); i > 0 {
			req.Header.Add(k[:i], v) // "Name#2": a second field of the same name
			continue
		}
		req.Header.Set(k, v)
	}
	rec := httptest.NewRecorder()
	func() {
		defer func() {
			if p := recover(); p != nil {
				r.Panic = fmt.Sprint(p)
			}
		}()
		w.Router.ServeHTTP(rec, req)
	}()
	r.Code = rec.Code
	r.Location = rec.Header().Get("Location")
	r.Body = rec.Body.String()
	return
}

const ccBase = "/nchf-convergedcharging/v3"

// ---------------------------------------------------------------------------------------
// snapshots of the observable state (taken by the only running thread, or with the scheduler passive)

type UESnap struct {
	Reserved   map[int32]int64  `json:"reserved"`
	RatingType map[int32]int    `json:"ratingType"`
	UnitCost   map[int32]uint32 `json:"unitCost"`
	ReqNum     map[int32]uint32 `json:"reqNum"`
	Sessions   []string         `json:"sessions"`
	Records    int              `json:"records"`
	NotifyUri  string           `json:"notifyUri"`
	RecHash    []uint64         `json:"recHash"` // hash of the BER encoding of every record, in ue.Records order
}

type Snap struct {
	Bal      map[string]string `json:"bal"` // "supi/rg" -> stored quota
	Docs     int               `json:"docs"`
	UEs      map[string]UESnap `json:"ues"`
	LocalSeq uint64            `json:"localSeq"`
	Files    map[string]int    `json:"files"` // name -> number of writes
	Open     int               `json:"open"`
	Half     int               `json:"half"`
	Dials    int               `json:"dials"`
	Gor      int               `json:"gor"`
	Notes    int               `json:"notes"`
	DBGets   int               `json:"dbGets"`
	DBPuts   int               `json:"dbPuts"`
	Cgf      *CgfSnap          `json:"cgf,omitempty"`
}

// CgfSnap: the billing domain's end of the CDR transfer (modelled FTP server).
type CgfSnap struct {
	Stale    []string `json:"stale"`    // files whose copy at the server differs from the CHF's current file
	Missing  []string `json:"missing"`  // files written by the CHF that the server does not hold
	Overlaps []string `json:"overlaps"` // commands sent on a control connection while another one awaited its reply
	BadStors []string `json:"badStors"` // uploads whose content is not a well-formed CDR file
	Stors    int      `json:"stors"`
	Logins   int      `json:"logins"`
}

const cgfAddr = "127.0.0.1:2121"

// cgfSetup puts the CDR transfer into the configured state (called at world set-up, scheduler-managed or free).
func cgfSetup(cfg WorldCfg) {
	ftp.MemReset()
	if cfg.Cgf {
		ftp.MemServe(cgfAddr)
		chf_cgf.VerifEnable(cgfAddr)
	} else {
		chf_cgf.VerifDisable()
	}
}

func balKey(supi string, rg int32) string { return fmt.Sprintf("%s/%d", supi, rg) }

func (w *World) Snapshot(withGor bool) (s Snap) {
	vs.Quiet(func() { s = w.snapshot(withGor) })
	return
}

func (w *World) snapshot(withGor bool) Snap {
	s := Snap{Bal: map[string]string{}, UEs: map[string]UESnap{}, Files: map[string]int{}}
	for _, d := range mongoapi.Docs[chargingColl] {
		s.Docs++
		supi, _ := d["ueId"].(string)
		rg, _ := d["ratingGroup"].(int32)
		q, _ := d["quota"].(string)
		if _, has := d["ueId"]; has {
			s.Bal[balKey(supi, rg)] = q
		}
	}
	self := chf_context.GetSelf()
	s.LocalSeq = reflect.ValueOf(self).Elem().FieldByName("LocalRecordSequenceNumber").Uint()
	self.UePool.Range(func(k, v any) bool {
		ue := v.(*chf_context.ChfUe)
		u := UESnap{Reserved: map[int32]int64{}, RatingType: map[int32]int{}, UnitCost: map[int32]uint32{}, ReqNum: map[int32]uint32{},
			Records: len(ue.Records), NotifyUri: ue.NotifyUri}
		for k, v := range ue.ReservedQuota {
			u.Reserved[k] = v
		}
		for k, v := range ue.RatingType {
			u.RatingType[k] = int(v)
		}
		for k, v := range ue.UnitCost {
			u.UnitCost[k] = v
		}
		for k, v := range ue.AcctRequestNum {
			u.ReqNum[k] = v
		}
		for k := range ue.Cdr {
			u.Sessions = append(u.Sessions, k)
		}
		for _, r := range ue.Records {
			b, _ := safeMarshalRecord(r)
			u.RecHash = append(u.RecHash, fnv(b))
		}
		sort.Strings(u.Sessions)
		s.UEs[k.(string)] = u
		return true
	})
	for n, c := range vos.Writes {
		s.Files[n] = c
	}
	s.Open, s.Half = diam.MemOpen()
	s.Dials = diam.MemDials()
	if withGor {
		s.Gor = w.Goroutines()
	}
	notesMu.Lock()
	s.Notes = len(notes)
	notesMu.Unlock()
	s.DBGets, s.DBPuts = mongoapi.Gets, mongoapi.Puts
	if srv := ftp.MemServers[cgfAddr]; srv != nil {
		c := &CgfSnap{Overlaps: append([]string(nil), ftp.MemOverlaps...), Stors: len(srv.Stors), Logins: srv.Logins}
		for i, b := range srv.StorData {
			if _, err := refReadFile(b); err != nil {
				c.BadStors = append(c.BadStors, fmt.Sprintf("upload %d (%s, %d octets): %v", i+1, srv.Stors[i], len(b), err))
			}
		}
		var names []string
		for n := range vos.Files {
			names = append(names, n)
		}
		sort.Strings(names)
		for _, n := range names {
			base := filepath.Base(n)
			got, ok := srv.Files[base]
			switch {
			case !ok:
				c.Missing = append(c.Missing, base)
			case !bytes.Equal(got, vos.Files[n]):
				c.Stale = append(c.Stale, base)
			}
		}
		s.Cgf = c
	}
	return s
}

func safeMarshalRecord(r *cdrType.CHFRecord) (b []byte, err error) {
	defer func() {
		if p := recover(); p != nil {
			err = fmt.Errorf("%v", p)
		}
	}()
	return asn.BerMarshalWithParams(&r, "explicit,choice")
}

func notesSince(n int) []Note {
	notesMu.Lock()
	defer notesMu.Unlock()
	return append([]Note(nil), notes[n:]...)
}

// Traffic decodes every Diameter message sent so far on all connections, in per-connection order.
type DiamMsg struct {
	Conn    string
	Dir     string // "c2s" / "s2c"
	Code    uint32
	Request bool
	Msg     *diam.Message
}

func Traffic() (out []DiamMsg) {
	for _, e := range diam.MemEnds {
		r := bytes.NewReader(e.Sent)
		for r.Len() > 0 {
			m, err := diam.ReadMessage(r, dict.Default)
			if err != nil {
				break
			}
			dir := "c2s"
			if strings.HasSuffix(e.ID, ".srv") {
				dir = "s2c"
			}
			out = append(out, DiamMsg{Conn: e.ID, Dir: dir, Code: m.Header.CommandCode, Request: m.Header.CommandFlags&diam.RequestFlag != 0, Msg: m})
		}
	}
	return
}
