//go:build verif && go1.23

package zzverif

import (
	"fmt"
	"strings"
	"time"

	"github.com/golang-jwt/jwt/v5"

	chf_context "github.com/free5gc/chf/internal/context"
	"verif.local/vs"
)

// C13, schedule part: a request with a valid NRF-signed token and a request without a valid token are in flight on
// the same route at the same time. Statement-level scheduling points (fine mode) are live in the authorisation code
// (internal/util, internal/context), so every placement of up to k preemptions between its statements is explored.
// The unauthenticated request must be answered 401 and must not be processed (recharging route: exactly one
// notification is sent, the valid request's).

func c13SchedScenario(invalid string) func() schedScenario {
	return func() schedScenario {
		oauthSetup()
		scopeAll := "nchf-convergedcharging nchf-offlineonlycharging nchf-spendinglimitcontrol"
		valid := "Bearer " + mkToken(jwt.SigningMethodRS512, nrfKey, scopeAll)
		bad := map[string]string{
			"absent":    "",
			"other-key": "Bearer " + mkToken(jwt.SigningMethodRS512, otherKey, scopeAll),
			"garbage":   "Bearer x",
		}[invalid]
		return schedScenario{
			Cfg: WorldCfg{Accounts: []Account{{supiA, 1, "1000", "2"}}, NrfCert: nrfCertPath, HorizonS: 120},
			Body: func(w *World, sctx *schedCtx) {
				sctx.Go("T1", func() {
					cr := mkCreate(0, "smf1")
					_, loc, _ := w.P.ChargingDataCreate(cr.Request(supiA))
					ref := refOf(loc)
					up := Op{K: "update", MUs: []MU{{RG: 1, Req: 100, Conts: []Cont{{Vol: 0, Seq: 1}}}}}
					w.P.ChargingDataUpdate(up.Request(supiA), ref)
					vs.Quiesce()
					chf_context.GetSelf().OAuth2Required = true
					n0 := len(notesSince(0))
					path := ccBase + "/recharging/" + supiA + "_1"
					codes := make([]int, 2)
					vs.S.Fine = true
					sctx.Free()
					var ths []*vs.Thread
					for k, hdr := range []string{valid, bad} {
						k, hdr := k, hdr
						ths = append(ths, vs.Go(fmt.Sprintf("R%d", k+1), func() {
							h := map[string]string{}
							if hdr != "" {
								h["Authorization"] = hdr
							}
							codes[k] = w.Do("PUT", path, nil, h).Code
						}))
					}
					for {
						all := true
						for _, th := range ths {
							if !th.Finished() {
								all = false
							}
						}
						if all {
							break
						}
						vs.Quiesce()
						time.Sleep(500 * time.Millisecond)
					}
					sctx.Stop()
					vs.S.Fine = false
					vs.Quiesce()
					sctx.Results["codes"] = codes
					sctx.Results["notes"] = len(notesSince(n0))
				})
			},
			Observe: func(w *World, sctx *schedCtx) (string, []Finding) {
				var fs []Finding
				codes, _ := sctx.Results["codes"].([]int)
				notes, _ := sctx.Results["notes"].(int)
				if len(codes) != 2 {
					return "incomplete", nil
				}
				what := fmt.Sprintf("PUT recharging with a valid token next to one with token %q", invalid)
				if codes[1] != 401 {
					fs = append(fs, Finding{"concurrent/not-401/" + invalid, what + fmt.Sprintf(": the unauthenticated request answered %d", codes[1])})
				}
				if codes[0] == 401 {
					fs = append(fs, Finding{"concurrent/valid-token-rejected", what + ": the authenticated request answered 401"})
				}
				if notes != 1 {
					fs = append(fs, Finding{"concurrent/processed-although-rejected/" + invalid, what + fmt.Sprintf(": %d re-authorisation notifications were sent (exactly one request was authorised)", notes)})
				}
				return fmt.Sprintf("codes=%v notes=%d", codes, notes), fs
			},
			Elig: func(def, alt string) bool {
				if alt != "PARK" || kindOf(def) != "pt" {
					return false
				}
				o := objOf(def)
				return strings.HasPrefix(o, "router_auth_check.go") || strings.HasPrefix(o, "context.go")
			},
		}
	}
}

// c13TwinScenario: two requests carrying the *same* invalid token in flight together: neither may be let through
// because of anything the other's verification has left behind half-done.
func c13TwinScenario(invalid string) func() schedScenario {
	return func() schedScenario {
		s := c13SchedScenario(invalid)()
		oauthSetup()
		scopeAll := "nchf-convergedcharging nchf-offlineonlycharging nchf-spendinglimitcontrol"
		bad := map[string]string{
			"other-key": "Bearer " + mkToken(jwt.SigningMethodRS512, otherKey, scopeAll),
			"garbage":   "Bearer x",
		}[invalid]
		s.Body = func(w *World, sctx *schedCtx) {
			sctx.Go("T1", func() {
				cr := mkCreate(0, "smf1")
				_, loc, _ := w.P.ChargingDataCreate(cr.Request(supiA))
				ref := refOf(loc)
				up := Op{K: "update", MUs: []MU{{RG: 1, Req: 100, Conts: []Cont{{Vol: 0, Seq: 1}}}}}
				w.P.ChargingDataUpdate(up.Request(supiA), ref)
				vs.Quiesce()
				chf_context.GetSelf().OAuth2Required = true
				n0 := len(notesSince(0))
				path := ccBase + "/recharging/" + supiA + "_1"
				codes := make([]int, 2)
				vs.S.Fine = true
				sctx.Free()
				var ths []*vs.Thread
				for k := 0; k < 2; k++ {
					k := k
					ths = append(ths, vs.Go(fmt.Sprintf("R%d", k+1), func() {
						codes[k] = w.Do("PUT", path, nil, map[string]string{"Authorization": bad}).Code
					}))
				}
				for {
					all := true
					for _, th := range ths {
						if !th.Finished() {
							all = false
						}
					}
					if all {
						break
					}
					vs.Quiesce()
					time.Sleep(500 * time.Millisecond)
				}
				sctx.Stop()
				vs.S.Fine = false
				vs.Quiesce()
				sctx.Results["codes"] = codes
				sctx.Results["notes"] = len(notesSince(n0))
			})
		}
		s.Observe = func(w *World, sctx *schedCtx) (string, []Finding) {
			var fs []Finding
			codes, _ := sctx.Results["codes"].([]int)
			notes, _ := sctx.Results["notes"].(int)
			if len(codes) != 2 {
				return "incomplete", nil
			}
			what := fmt.Sprintf("two PUT recharging requests in flight together, both with the same token %q", invalid)
			for k, c := range codes {
				if c != 401 {
					fs = append(fs, Finding{"concurrent/twin/not-401/" + invalid, what + fmt.Sprintf(": request %d answered %d", k+1, c)})
				}
			}
			if notes != 0 {
				fs = append(fs, Finding{"concurrent/twin/processed-although-rejected/" + invalid, what + fmt.Sprintf(": %d re-authorisation notifications were sent", notes)})
			}
			return fmt.Sprintf("codes=%v notes=%d", codes, notes), fs
		}
		return s
	}
}

var c13SchedNames = []string{"c13-valid-next-to-absent", "c13-valid-next-to-other-key", "c13-valid-next-to-garbage", "c13-twin-other-key", "c13-twin-garbage"}

func init() {
	for _, k := range []string{"absent", "other-key", "garbage"} {
		schedScenarios["c13-valid-next-to-"+k] = c13SchedScenario(k)
	}
	for _, k := range []string{"other-key", "garbage"} {
		schedScenarios["c13-twin-"+k] = c13TwinScenario(k)
	}
}

func c13Schedules(rep *Report, pool *Pool) (per []map[string]any, execs int, exhaustive bool) {
	exhaustive = true
	for _, name := range c13SchedNames {
		bound, capExecs := 2, 5000
		if rep.Tier == "thorough" {
			bound, capExecs = 3, 100000
		}
		st := SchedStats{}
		ExploreSchedules(pool, rep, name, bound, capExecs, &st)
		execs += st.Execs
		if st.Capped > 0 || st.Diverged > 0 {
			exhaustive = false
		}
		var outs []string
		for o, n := range st.Outcomes {
			outs = append(outs, fmt.Sprintf("%s x%d", o, n))
		}
		per = append(per, map[string]any{"scenario": name, "deviation_bound": bound, "executions": st.Execs, "by_deviations": st.ByBound, "deviation_points_in_default_schedule": st.EligPoints,
			"distinct_outcomes": len(st.Outcomes), "capped_children": st.Capped, "engine_errors": st.Diverged, "outcomes": strings.Join(outs, "; ")})
	}
	return
}
