//go:build verif && go1.23

package zzverif

import (
	"encoding/json"
	"fmt"
	"sort"
	"strings"
	"testing"
)

// C10: charging-session references are unique among unreleased sessions and keep designating their session.

var c10Supis = []string{"imsi-1", "imsi-11", "imsi-12", "imsi-999"}

func c10Step(w *World, h *HistRun, i int) (fs []Finding) {
	if i != len(h.Steps)-1 {
		return
	}
	last := h.Steps[i]
	seen := map[string]*Sess{}
	dup := false
	for _, se := range h.Sess {
		if !se.Live {
			continue
		}
		if o, ok := seen[se.Ref]; ok {
			dup = true
			if last.Op.K == "create" || last.Op.K == "fill" {
				cls := "different-subscribers"
				if o.Supi == se.Supi {
					cls = "same-subscriber"
				}
				fs = append(fs, Finding{"duplicate-reference/" + cls, fmt.Sprintf("after step %d %s: reference %q was returned for the session of %s (consumer %q) and again for the session of %s (consumer %q); neither is released",
					i, last.Op, se.Ref, o.Supi, o.Cons, se.Supi, se.Cons)})
			}
		} else {
			seen[se.Ref] = se
		}
	}
	if (last.Op.K == "update" || last.Op.K == "release") && last.Resp.Code/100 != 2 {
		fs = append(fs, Finding{"reference-not-accepted", fmt.Sprintf("step %d %s addressed to the live reference %q answered %d", i, last.Op, last.Ref, last.Resp.Code)})
	}
	if !dup {
		// designation: the usage reported on each reference sits in the record opened by that create (C02's placement oracle)
		for _, f := range c02Step(w, h, i) {
			switch f.Rule {
			case "usage-not-recorded-exactly-once", "usage-in-foreign-record", "no-record-for-session", "identity-fields", "wrong-subscriber-identity":
				fs = append(fs, Finding{"designation/" + f.Rule, f.Detail})
			}
		}
	}
	return
}

type c10Info struct {
	Sess    []*Sess `json:"sess"`
	NextTag int32   `json:"nextTag"`
	Dup     bool    `json:"dup"`
	Events  int     `json:"events"`
	Jumped  bool    `json:"jumped"`
}

func c10State(w *World, h *HistRun) (string, any) {
	k, ci := cdrState(true)(w, h)
	info := c10Info{Sess: h.Sess, NextTag: ci.(cdrInfo).NextTag}
	for _, stp := range h.Steps {
		if stp.Op.K == "create" && stp.Op.OTE != "" && stp.Resp.Code == 201 {
			info.Events++
		}
		if stp.Op.K == "jump" {
			info.Jumped = true
		}
	}
	var ss []string
	refs := map[string]bool{}
	for _, se := range h.Sess {
		if se.Live {
			if refs[se.Ref] {
				info.Dup = true
			}
			refs[se.Ref] = true
			ss = append(ss, fmt.Sprintf("%s/%s", se.Supi, se.Cons))
		}
	}
	sort.Strings(ss)
	s := w.Snapshot(false)
	return fmt.Sprintf("%s|%s|n%d|ev%d", k, strings.Join(ss, ","), s.LocalSeq, info.Events), info
}

func c10Alphabet(names []string, fill bool, jumpOpt ...bool) func(raw json.RawMessage, depth int) []Op {
	jump := len(jumpOpt) > 0 && jumpOpt[0]
	return func(raw json.RawMessage, depth int) (ops []Op) {
		var in c10Info
		json.Unmarshal(raw, &in)
		if in.Dup {
			return nil // a duplicate exists (reported): successors add nothing
		}
		creates := 0
		filled := false
		have := map[string]bool{}
		for _, s := range in.Sess {
			if strings.HasPrefix(s.Cons, "f") && s.Supi == c10Supis[3] {
				filled = true
				continue
			}
			creates++
			have[fmt.Sprintf("%d/%s", s.U, s.Cons)] = true
		}
		tag := max(in.NextTag, 2000)
		if creates < 4 {
			for u := 0; u < 3; u++ {
				for _, n := range names {
					if have[fmt.Sprintf("%d/%s", u, n)] && !(jump && in.Jumped) && len(n) < 200 {
						continue // (after the counter jump the same consumer attaches once more)
					}
					c := mkCreate(u, n)
					c.CID = int32(100 + 10*u + depth)
					ops = append(ops, c)
				}
			}
		}
		if info := in; info.Events < 1 && creates > 0 && depth >= 1 {
			// a one-time event of a subscriber that has open sessions: it opens no session, and the open references stay valid
			for u := 0; u < 3; u++ {
				if !have[fmt.Sprintf("%d/%s", u, names[0])] {
					continue
				}
				ev := mkCreate(u, names[0])
				ev.OTE, ev.CID = "IEC", int32(100+10*u+depth)
				ops = append(ops, ev)
				break
			}
		}
		if jump && !in.Jumped && creates > 0 {
			ops = append(ops, Op{K: "jump", U: 0})
		}
		if fill && !filled && creates > 0 {
			ops = append(ops, Op{K: "fill", U: 3, Amt: 9})
		}
		for si, s := range in.Sess {
			if !s.Live || s.Supi == c10Supis[3] {
				continue
			}
			ops = append(ops, Op{K: "update", S: si, MUs: []MU{{RG: 1, Req: 10, Conts: []Cont{{Vol: 7, Up: 3, Down: 4, Seq: tag, Offline: true}}}}, Seq: int32(depth)})
			ops = append(ops, Op{K: "release", S: si, MUs: []MU{{RG: 1, Req: -1, Conts: []Cont{{Vol: 8, Up: 4, Down: 4, Seq: tag + 1, Offline: true}}}}, Trig: []string{"FINAL"}, Seq: int32(depth)})
		}
		return
	}
}

func init() {
	histOracles["C10"] = HistOracle{Step: c10Step, State: c10State}
	checks["C10"] = func(t *testing.T) int {
		rep := NewReport("C10")
		pool := NewPool(0)
		total := BFSStats{Outcomes: map[string]int{}}
		var per []map[string]any
		exhaustive := true
		type scen struct {
			name  string
			seq   uint64
			names []string
			fill  bool
			depth int
		}
		scs := []scen{
			{"counter0", 0, []string{"", "x", "1x", "x1"}, false, 3},
			{"counter9", 9, []string{"x", "x1", "1x"}, false, 3},
			{"counter99", 99, []string{"x", "x1"}, false, 3},
			{"counter0-fill9", 0, []string{"x", "x1"}, true, 4},
			// consumer names whose characters mean something in a URL path: the reference must still designate the session
			{"counter0-url-characters", 0, []string{"x%2Fy", "x%41", "x y", "x+y", "x?y#z", "x%zz", "x/y", "x-0/release?"}, false, 2},
			// names that differ in case or in surrounding blanks only
			{"counter0-case-and-blanks", 0, []string{"x", "X", "x ", " x"}, false, 3},
			// the counter 2^32 records later, with sessions still open
			{"counter7-jump", 7, []string{"x"}, false, 3},
			// consumer names long enough for the reference to pass 255 octets (two sessions of one consumer)
			{"counter0-long-names", 0, []string{strings.Repeat("n", 240), strings.Repeat("n", 1000)}, false, 3},
		}
		if rep.Tier == "thorough" {
			scs[0].depth, scs[1].depth, scs[2].depth, scs[3].depth = 4, 4, 4, 5
			scs = append(scs, scen{"counter1-fill9", 1, []string{"x", "x1", "1x"}, true, 4})
		}
		for _, sc := range scs {
			st := BFSStats{}
			sp := BFSSpec{Name: sc.name, Check: "C10", Oracle: "C10", Cfg: WorldCfg{Accounts: nil, LocalSeq: sc.seq}, Supis: c10Supis, MaxDepth: sc.depth, Alphabet: c10Alphabet(sc.names, sc.fill, strings.HasSuffix(sc.name, "-jump"))}
			RunBFS(pool, sp, rep, &st)
			total.States += st.States
			total.Transitions += st.Transitions
			total.Samples = append(total.Samples, st.Samples...)
			for k, v := range st.Outcomes {
				total.Outcomes[k] += v
			}
			if st.CapHit || st.EngineErrs > 0 {
				exhaustive = false
			}
			per = append(per, map[string]any{"scenario": sc.name, "counter_preset": sc.seq, "consumer_names": sc.names, "depth_bound": sc.depth, "depth_completed": st.MaxDepthDone, "states": st.States, "transitions": st.Transitions, "per_level": st.PerLevel})
		}
		sched := c10Schedules(t, rep, pool)
		if len(total.Samples) > 5 {
			total.Samples = total.Samples[:5]
		}
		rep.Cov["states"] = total.States
		rep.Cov["transitions"] = total.Transitions
		rep.Cov["traces_validated_against_impl"] = total.Transitions
		rep.Cov["samples"] = total.Samples
		rep.Cov["exhaustive"] = exhaustive
		rep.Cov["scenarios"] = per
		rep.Cov["schedules"] = sched
		rep.Cov["distinct_outcomes"] = total.Outcomes
		rep.Cov["method"] = "breadth-first search over create/update/release histories with subscriber identifiers one of which is a prefix of another (imsi-1, imsi-11, imsi-12), consumer names ending in digits / empty / containing percent-escapes, spaces, '+', '?' and '#', and the global record counter preset to 0, 9, 99 (a macro operation advances it by 9); after every transition all unreleased references must be pairwise different strings and usage addressed to a reference must sit in the record opened by that create"
		return rep.Finish()
	}
}

// c10Schedules is filled in by the schedule-mode engine (sched_test.go); a no-op until then.
var c10Schedules = func(t *testing.T, rep *Report, pool *Pool) any { return "not run" }
