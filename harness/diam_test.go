//go:build verif && go1.23

package zzverif

import (
	"encoding/json"
	"fmt"
	"math"
	"math/big"
	"reflect"
	"sort"
	"strconv"
	"strings"
	"testing"
	"time"

	"github.com/fiorix/go-diameter/diam"
	"github.com/fiorix/go-diameter/diam/avp"
	"github.com/fiorix/go-diameter/diam/datatype"
	"github.com/fiorix/go-diameter/diam/dict"
	"github.com/fiorix/go-diameter/diam/sm"

	charging_code "github.com/free5gc/chf/ccs_diameter/code"
	cd "github.com/free5gc/chf/ccs_diameter/datatype"
	"github.com/free5gc/util/mongoapi"
	"verif.local/vs"
)

// A real go-diameter client (state machine, handshake) on the modelled network, driven by a harness thread.
type diamClient struct {
	conn    diam.Conn
	answers chan *diam.Message
}

func dialPeer(addr, answerCmd string) (*diamClient, error) {
	cfg := &sm.Settings{OriginHost: "verif-client", OriginRealm: "go-diameter", VendorID: 13, ProductName: "go-diameter", FirmwareRevision: 1,
		HostIPAddresses: []datatype.Address{datatype.Address("127.0.0.1")}}
	mux := sm.New(cfg)
	c := &diamClient{answers: make(chan *diam.Message, 16)}
	mux.HandleFunc(answerCmd, func(_ diam.Conn, m *diam.Message) { c.answers <- m })
	cli := &sm.Client{Dict: dict.Default, Handler: mux, MaxRetransmits: 0, RetransmitInterval: time.Second, EnableWatchdog: false,
		AuthApplicationID: []*diam.AVP{diam.NewAVP(avp.AuthApplicationID, avp.Mbit, 0, datatype.Unsigned32(4))}}
	conn, err := cli.DialNetwork("tcp", addr)
	if err != nil {
		return nil, err
	}
	c.conn = conn
	return c, nil
}

// exchange sends one request and returns the answer present at quiescence (nil: the peer did not answer).
func (c *diamClient) exchange(cmd uint32, req any) (*diam.Message, error) {
	for len(c.answers) > 0 {
		<-c.answers
	}
	msg := diam.NewRequest(cmd, charging_code.Re_interface, dict.Default)
	if err := msg.Marshal(req); err != nil {
		return nil, fmt.Errorf("marshal: %w", err)
	}
	if _, err := msg.WriteTo(c.conn); err != nil {
		return nil, fmt.Errorf("write: %w", err)
	}
	vs.Quiesce()
	select {
	case m := <-c.answers:
		return m, nil
	default:
		return nil, nil
	}
}

// ---------------------------------------------------------------------------------------
// C07: account-balance server

type ccrOp struct {
	Acct   int    `json:"acct"`   // index into the target list
	Action int    `json:"action"` // RequestedAction
	Type   int    `json:"type"`   // CcRequestType
	Amt    uint64 `json:"amt"`
	Num    uint32 `json:"num"`
	Sess   int    `json:"sess,omitempty"`
	SubT   int    `json:"subT,omitempty"` // Subscription-Id-Type: 0 = END_USER_IMSI; 1 = E164, 2 = NAI carrying the same digits (not an IMSI subscriber) // 0: a Session-Id of its own; 1: the subscriber's Session-Id (the CHF uses one per subscriber for all rating groups)
}

type c07Target struct {
	Imsi string
	RG   uint32
	Bal  int64 // stored balance (may be negative: an account overdrawn by an earlier termination debit)
	None bool  // no account document
}

type c07Args struct {
	Targets []c07Target `json:"targets"`
	Ops     []ccrOp     `json:"ops"`
}

type c07Out struct {
	Key   string    `json:"key"`
	Bals  []string  `json:"bals"`
	Finds []Finding `json:"finds"`
	Last  string    `json:"last"`
}

var actionNames = map[int]string{0: "DIRECT_DEBITING", 1: "REFUND_ACCOUNT", 2: "CHECK_BALANCE", 3: "PRICE_ENQUIRY"}
var typeNames = map[int]string{1: "INITIAL", 2: "UPDATE", 3: "TERMINATION", 4: "EVENT"}

func (o ccrOp) String() string {
	return fmt.Sprintf("%s/%s amount=%d target=%d #%d", actionNames[o.Action], typeNames[o.Type], o.Amt, o.Acct, o.Num)
}

func c07Job(t *testing.T, raw json.RawMessage) (any, error) {
	var a c07Args
	json.Unmarshal(raw, &a)
	var out c07Out
	cfg := WorldCfg{NoRF: true}
	for _, tg := range a.Targets {
		if !tg.None {
			cfg.Accounts = append(cfg.Accounts, Account{"imsi-" + tg.Imsi, int32(tg.RG), strconv.FormatInt(tg.Bal, 10), "1"})
		}
	}
	readBals := func() []string {
		var bs []string
		for _, d := range mongoapi.Docs[chargingColl] {
			bs = append(bs, fmt.Sprintf("%v/%v=%v", d["ueId"], d["ratingGroup"], d["quota"]))
		}
		sort.Strings(bs)
		return bs
	}
	o := runWorld(t, cfg, nil, func(w *World) {
		vs.Go("T1", func() {
			cli, err := dialPeer("127.0.0.1:3869", "CCA")
			if err != nil {
				out.Finds = append(out.Finds, Finding{"engine", "dial: " + err.Error()})
				return
			}
			model := map[int]int64{}
			for i, tg := range a.Targets {
				model[i] = tg.Bal
			}
			for i, op := range a.Ops {
				tg := a.Targets[op.Acct]
				sess := fmt.Sprintf("sess-%d-%d", op.Acct, i)
				if op.Sess == 1 {
					sess = "sess-of-" + tg.Imsi
				}
				if op.Sess == 2 {
					sess = "" // (an empty Session-Id is echoed as such, with everything else of the answer intact)
				}
				req := &cd.AccountDebitRequest{SessionId: datatype.UTF8String(sess), OriginHost: "verif-client", OriginRealm: "go-diameter",
					DestinationRealm: "go-diameter", DestinationHost: "server", UserName: datatype.OctetString("CHF"),
					RequestedAction: cd.RequestedAction(op.Action), CcRequestType: cd.CcRequestType(op.Type), CcRequestNumber: datatype.Unsigned32(op.Num),
					EventTimestamp: datatype.Time(time.Now()),
					SubscriptionId: &cd.SubscriptionId{SubscriptionIdType: []cd.SubscriptionIdType{cd.END_USER_IMSI, cd.END_USER_E164, cd.END_USER_NAI}[op.SubT], SubscriptionIdData: datatype.UTF8String(tg.Imsi)},
					MultipleServicesCreditControl: &cd.MultipleServicesCreditControl{RatingGroup: datatype.Unsigned32(tg.RG),
						RequestedServiceUnit: &cd.RequestedServiceUnit{CCTotalOctets: datatype.Unsigned64(op.Amt)},
						UsedServiceUnit:      &cd.UsedServiceUnit{CCTotalOctets: datatype.Unsigned64(op.Amt)}}}
				// both AVPs are present, as in an ordinary update; the one that does not carry the amount of this request
				// (used units for a termination debit, requested units otherwise) holds another number
				if op.Action == 0 && op.Type == 3 {
					req.MultipleServicesCreditControl.RequestedServiceUnit.CCTotalOctets = datatype.Unsigned64(op.Amt/2 + 13)
				} else {
					req.MultipleServicesCreditControl.UsedServiceUnit.CCTotalOctets = datatype.Unsigned64(op.Amt/2 + 13)
				}
				before := readBals()
				m, err := cli.exchange(charging_code.ABMF_CreditControl, req)
				after := readBals()
				last := i == len(a.Ops)-1
				what := fmt.Sprintf("request %d %s (stored balance %d)", i, op, model[op.Acct])
				if err != nil {
					out.Finds = append(out.Finds, Finding{"engine", what + ": " + err.Error()})
					return
				}
				// reference model
				bal := model[op.Acct]
				refundOverflow := false
				known := !tg.None && op.SubT == 0 // (the same digits under another Subscription-Id-Type name no IMSI subscriber)
				var wantGrant int64 = -1
				wantFUI := false
				nb := bal
				if known {
					switch {
					case op.Action == 0 && (op.Type == 1 || op.Type == 2):
						// (an overdrawn account - a termination debit may take the balance below zero - grants nothing)
						wantGrant = max(min(int64(op.Amt), bal), 0)
						wantFUI = int64(op.Amt) > bal
						nb = bal - wantGrant
					case op.Action == 0 && op.Type == 3:
						nb = bal - int64(op.Amt)
					case op.Action == 1:
						nb = bal + int64(op.Amt)
						if bal >= 0 && int64(op.Amt) > math.MaxInt64-bal {
							refundOverflow = true // the sum does not fit the signed 64-bit balance: whatever is stored is not bal + amount
						}
					}
				}
				model[op.Acct] = nb
				if !last {
					continue
				}
				out.Last = what
				// stored balances: exactly the model
				var wantBals []string
				for j, t2 := range a.Targets {
					if !t2.None {
						wantBals = append(wantBals, fmt.Sprintf("imsi-%s/%d=%d", t2.Imsi, t2.RG, model[j]))
					}
				}
				sort.Strings(wantBals)
				if refundOverflow && known {
					// positively recognised known defect: quota += refund wraps around the signed 64-bit balance
					out.Finds = append(out.Finds, Finding{"stored-balance/refund-beyond-int64", fmt.Sprintf("%s: stored balances %v -> %v (balance + refund does not fit 64 bits and wrapped)", what, before, after)})
				} else if strings.Join(after, " ") != strings.Join(wantBals, " ") {
					cls := "known-target"
					if !known {
						cls = "unknown-target"
					}
					if refundOverflow {
						cls = "refund-beyond-int64" // positively recognised known defect
					}
					out.Finds = append(out.Finds, Finding{"stored-balance/" + cls + "/" + actionNames[op.Action], fmt.Sprintf("%s: stored balances %v -> %v, expected %v", what, before, after, wantBals)})
				}
				if !known {
					continue
				}
				if m == nil {
					out.Finds = append(out.Finds, Finding{"no-answer/" + actionNames[op.Action] + "/" + typeNames[op.Type], what + ": the server did not answer"})
					continue
				}
				var cca cd.AccountDebitResponse
				if err := m.Unmarshal(&cca); err != nil {
					out.Finds = append(out.Finds, Finding{"answer-undecodable", what + ": " + err.Error()})
					continue
				}
				if string(cca.SessionId) != sess || int(cca.CcRequestType) != op.Type || uint32(cca.CcRequestNumber) != op.Num {
					out.Finds = append(out.Finds, Finding{"answer-does-not-echo-request/" + actionNames[op.Action] + "/" + typeNames[op.Type],
						fmt.Sprintf("%s: answer carries Session-Id %q, CC-Request-Type %d, CC-Request-Number %d (sent %q, %d, %d)", what, cca.SessionId, cca.CcRequestType, cca.CcRequestNumber, sess, op.Type, op.Num)})
				}
				if wantGrant >= 0 {
					var got int64 = -1
					fui := false
					if mc := cca.MultipleServicesCreditControl; mc != nil {
						if mc.GrantedServiceUnit != nil {
							got = int64(mc.GrantedServiceUnit.CCTotalOctets)
						}
						fui = mc.FinalUnitIndication != nil
					}
					if got != wantGrant {
						out.Finds = append(out.Finds, Finding{"grant-not-min-of-request-and-balance", fmt.Sprintf("%s: granted %d, expected %d", what, got, wantGrant)})
					}
					if fui != wantFUI {
						out.Finds = append(out.Finds, Finding{"final-unit-indication", fmt.Sprintf("%s: final-unit indication %v, expected %v", what, fui, wantFUI)})
					}
				}
			}
			out.Bals = readBals()
			out.Key = strings.Join(out.Bals, " ")
		})
	}, nil)
	if o.Panic != "" || o.Res.Err != "" {
		return nil, fmt.Errorf("engine: %s %s", o.Panic, o.Res.Err)
	}
	if o.Res.Deadlock {
		out.Finds = append(out.Finds, Finding{"blocked-forever", fmt.Sprint(o.Res.Blocked)})
	}
	for _, p := range o.ThPanics {
		out.Finds = append(out.Finds, Finding{"driver-panic", oneLine(p, 300)})
	}
	return out, nil
}

func init() {
	jobHandlers["c07"] = c07Job
	checks["C07"] = func(t *testing.T) int {
		rep := NewReport("C07")
		pool := NewPool(0)
		var big int64 = 1 << 62
		targetSets := [][]c07Target{
			{{"208930000000001", 1, 100, false}, {"208930000000001", 2, 0, false}, {"208930000000002", 1, 1, false}, {"208930000000009", 1, 0, true}, {"208930000000001", 9, 0, true}, {"208930000000001", 0, 0, true}, {"208930000000002", math.MaxUint32, 0, true},
				{"208930000000003", 1, -30, false}}, // (an account overdrawn by an earlier termination debit)
			{{"208930000000001", 1, big, false}, {"208930000000001", 2, 1<<53 + 1, false}, {"208930000000002", 1, math.MaxInt64 - 5, false}, {"208930000000009", 1, 0, true}, {"208930000000001", 9, 0, true}, {"208930000000001", 0, 0, true}},
		}
		depth := 2
		if rep.Tier == "thorough" {
			depth = 3
		}
		states, trans := 0, 0
		var samples []any
		outcomes := map[string]int{}
		exhaustive := true
		for si, targets := range targetSets {
			alphabet := func(bals map[int]int64) (ops []ccrOp) {
				for ai := range targets {
					b := bals[ai]
					unknown := targets[ai].None
					amts := []uint64{0, 1, 7, 1 << 31, 1 << 32, 1<<53 + 1, 1<<62 + 1, math.MaxInt64}
					if unknown {
						amts = []uint64{1, 1 << 32} // unknown subscriber / rating group: the amount plays no role
					}
					if !unknown && b < 0 {
						amts = []uint64{0, 1, 7, 30, 31} // overdrawn account: refunds around the debt, small debits
					}
					if !unknown && b >= 0 {
						amts = append(amts, uint64(b), uint64(b)+1)
						if b > 0 {
							amts = append(amts, uint64(b)-1)
						}
					}
					seen := map[uint64]bool{}
					for amtIdx, amt := range amts {
						if seen[amt] || amt > math.MaxInt64 {
							continue
						}
						seen[amt] = true
						for act := 0; act <= 3; act++ {
							for ty := 1; ty <= 4; ty++ {
								if act != 0 && ty != 2 && ty != 4 && !(act == 1 && ty == 3) {
									continue // the other actions: UPDATE, EVENT (and refund with TERMINATION) only
								}
								// (a refund whose sum with the balance does not fit int64 is explored as well, but only as the last
								// request of a history: what is stored afterwards is not a balance any more)
								if !unknown && b >= 0 && act == 0 && ty == 3 && int64(amt) > b && int64(amt) > b+31 {
									continue // termination debits beyond the balance: only small overdrafts (the stored balance turns negative)
								}
								// half of the requests use the subscriber's Session-Id with a request number that depends on
								// action and type only (as the CHF does per rating group: the same (session, number, type, action)
								// then recurs for another rating group), the other half a Session-Id and number of their own
								op := ccrOp{Acct: ai, Action: act, Type: ty, Amt: amt, Num: uint32(len(ops) % 7)}
								if amtIdx%2 == 0 {
									op.Sess, op.Num = 1, uint32((act*4+ty)%5)
								}
								ops = append(ops, op)
								if !unknown && amtIdx == 2 {
									o3 := op
									o3.Sess = 2
									ops = append(ops, o3)
								}
								if !unknown && amtIdx == 1 {
									// the same digits under a Subscription-Id-Type that is not IMSI: no such subscriber
									for _, st := range []int{1, 2} {
										o2 := op
										o2.SubT = st
										ops = append(ops, o2)
									}
								}
							}
						}
					}
				}
				return
			}
			type node struct {
				ops  []ccrOp
				bals map[int]int64
			}
			init := map[int]int64{}
			for i, tg := range targets {
				init[i] = tg.Bal
			}
			frontier := []node{{nil, init}}
			seen := map[string]bool{}
			for d := 0; d < depth; d++ {
				var jobs []Job
				var meta []node
				for _, n := range frontier {
					for _, op := range alphabet(n.bals) {
						ops := append(append([]ccrOp(nil), n.ops...), op)
						jobs = append(jobs, Job{Kind: "c07", Args: mustJSON(c07Args{Targets: targets, Ops: ops})})
						meta = append(meta, node{ops: ops})
					}
				}
				var next []node
				for i, r := range pool.RunAll(jobs) {
					trans++
					if r.Crash != "" {
						rep.Finding("process-crash", fmt.Sprintf("target set %d ops %v: %s", si, meta[i].ops, oneLine(r.Crash, 300)), map[string]any{"job": json.RawMessage(jobs[i].Args), "kind": "c07"})
						continue
					}
					if r.Err != "" {
						rep.EngineError(r.Err)
						exhaustive = false
						continue
					}
					var o c07Out
					json.Unmarshal(r.Out, &o)
					for _, f := range o.Finds {
						if f.Rule == "engine" {
							rep.EngineError(f.Detail)
							exhaustive = false
							continue
						}
						rep.Finding(f.Rule, f.Detail, map[string]any{"job": json.RawMessage(jobs[i].Args), "kind": "c07", "case": f.Detail})
					}
					last := meta[i].ops[len(meta[i].ops)-1]
					outcomes[actionNames[last.Action]+"/"+typeNames[last.Type]]++
					if len(samples) < 4 && d == 1 {
						samples = append(samples, map[string]any{"requests": fmt.Sprint(meta[i].ops), "stored_balances_after": o.Bals})
					}
					wrapped := false
					for _, f := range o.Finds {
						if f.Rule == "stored-balance/refund-beyond-int64" {
							wrapped = true // (known finding) what is stored now is not a balance: the history is not extended
						}
					}
					if !seen[o.Key] && !wrapped {
						seen[o.Key] = true
						states++
						// successor balances from the observed store
						nb := map[int]int64{}
						for j, tg := range targets {
							nb[j] = -1
							for _, b := range o.Bals {
								pre := fmt.Sprintf("imsi-%s/%d=", tg.Imsi, tg.RG)
								if strings.HasPrefix(b, pre) {
									nb[j], _ = strconv.ParseInt(b[len(pre):], 10, 64)
								}
							}
						}
						next = append(next, node{ops: meta[i].ops, bals: nb})
					}
				}
				frontier = next
			}
		}
		rep.Cov["states"] = states
		rep.Cov["transitions"] = trans
		rep.Cov["traces_validated_against_impl"] = trans
		rep.Cov["samples"] = samples
		rep.Cov["exhaustive"] = exhaustive
		rep.Cov["depth"] = depth
		rep.Cov["race_pass"] = racePass(rep, "peers/abmf")
		sper, sexecs, sex := c07Schedules(rep, pool)
		if !sex {
			exhaustive = false
		}
		rep.Cov["sequences_over_one_connection_per_request"] = sper
		rep.Cov["schedules"] = sexecs
		rep.Cov["exhaustive"] = exhaustive
		rep.Cov["distinct_outcomes"] = outcomes
		rep.Cov["method"] = "breadth-first search over sequences of credit-control requests sent by a real go-diameter client over the modelled network to the server started by abmf.OpenServer; alphabet = 4 actions x request types x amounts {0,1,7,balance-1,balance,balance+1,2^31,2^32,2^53+1,2^62+1,2^63-1} x 8 targets (3 accounts, an overdrawn account, an unknown subscriber, unknown rating groups 9, 0 and 2^32-1; the same digits under Subscription-Id-Types other than IMSI), half of the requests under the subscriber's Session-Id with request numbers that recur across rating groups, from two sets of initial balances (small and near 2^62/2^63); reference model = a map of balances; states deduplicated by the stored balances"
		rep.Assumptions = append(rep.Assumptions, "'no answer' is decided at quiescence of the whole world (every goroutine blocked), not by waiting")
		return rep.Finish()
	}
}

// ---------------------------------------------------------------------------------------
// C08: rating server

type c08Args struct {
	Costs []string `json:"costs"`
}

type c08Out struct {
	Requests int            `json:"requests"`
	Finds    []Finding      `json:"finds"`
	Rules    map[string]int `json:"rules"`
	Samples  []string       `json:"samples"`
}

func costClass(s string) string {
	if n, err := strconv.ParseUint(s, 10, 32); err == nil {
		if n == 0 {
			return "zero"
		}
		return "integer"
	}
	if b, ok := new(big.Int).SetString(s, 10); ok && b.Sign() > 0 && !strings.ContainsAny(s, "+- ") {
		// an integer unit cost that neither the Unsigned32 price arithmetic of the server nor the CHF's 32-bit unit cost
		// can hold: no monetary quota below 2^32 buys a single unit at it
		return "integer-beyond-32-bits"
	}
	if _, err := strconv.ParseFloat(s, 64); err == nil && strings.Contains(s, ".") {
		return "decimal"
	}
	return "malformed"
}

func c08Job(t *testing.T, raw json.RawMessage) (any, error) {
	var a c08Args
	json.Unmarshal(raw, &a)
	out := c08Out{Rules: map[string]int{}}
	find := func(rule, detail string) {
		out.Rules[rule]++
		if out.Rules[rule] <= 3 {
			out.Finds = append(out.Finds, Finding{rule, detail})
		}
	}
	cfg := WorldCfg{NoABMF: true}
	for i, c := range a.Costs {
		cfg.Accounts = append(cfg.Accounts, Account{fmt.Sprintf("imsi-20893000000%04d", i), 1, "1000", c})
	}
	cfg.Accounts = append(cfg.Accounts, Account{"imsi-208930000009999", 1, "1000", "3"})
	o := runWorld(t, cfg, nil, func(w *World) {
		vs.Go("T1", func() {
			ask := func(imsi string, sub cd.RequestSubType, consumed, quota uint32) (*cd.ServiceUsageResponse, string) {
				cli, err := dialPeer("127.0.0.1:3868", "SUA")
				if err != nil {
					return nil, "dial: " + err.Error()
				}
				defer cli.conn.Close()
				req := &cd.ServiceUsageRequest{SessionId: "rate-1", OriginHost: "verif-client", OriginRealm: "go-diameter", DestinationRealm: "go-diameter", DestinationHost: "server",
					UserName: datatype.OctetString("CHF"), ActualTime: datatype.Time(time.Now()),
					SubscriptionId: &cd.SubscriptionId{SubscriptionIdType: cd.END_USER_IMSI, SubscriptionIdData: datatype.UTF8String(imsi)},
					ServiceRating:  &cd.ServiceRating{ServiceIdentifier: 1, RequestSubType: sub}}
				// numeric members are set by reflection so that a change of their integer width does not break the harness build
				srv := reflect.ValueOf(req.ServiceRating).Elem()
				srv.FieldByName("ConsumedUnits").SetUint(uint64(consumed))
				srv.FieldByName("MonetaryQuota").SetUint(uint64(quota))
				m, err := cli.exchange(charging_code.ServiceUsageMessage, req)
				if err != nil {
					return nil, err.Error()
				}
				if m == nil {
					return nil, "no answer"
				}
				var sua cd.ServiceUsageResponse
				if err := m.Unmarshal(&sua); err != nil {
					return nil, "undecodable answer: " + err.Error()
				}
				return &sua, ""
			}
			// a request that names no IMSI subscriber (absent Subscription-Id, or an NAI) right after a rated one:
			// it may stay unanswered, but it must not be rated with the previous subscriber's tariff
			foreign := func(after string) {
				for _, mode := range []string{"absent", "nai"} {
					cli, err := dialPeer("127.0.0.1:3868", "SUA")
					if err != nil {
						return
					}
					req := &cd.ServiceUsageRequest{SessionId: "rate-x", OriginHost: "verif-client", OriginRealm: "go-diameter", DestinationRealm: "go-diameter", DestinationHost: "server",
						ServiceRating: &cd.ServiceRating{ServiceIdentifier: 1, RequestSubType: cd.REQ_SUBTYPE_DEBIT}}
					reflect.ValueOf(req.ServiceRating).Elem().FieldByName("ConsumedUnits").SetUint(1000)
					if mode == "nai" {
						req.SubscriptionId = &cd.SubscriptionId{SubscriptionIdType: cd.END_USER_NAI, SubscriptionIdData: "user@example.org"}
					}
					m, _ := cli.exchange(charging_code.ServiceUsageMessage, req)
					cli.conn.Close()
					out.Requests++
					if m == nil {
						continue
					}
					var sua cd.ServiceUsageResponse
					if m.Unmarshal(&sua) == nil && sua.ServiceRating != nil && (sua.ServiceRating.Price != 0 || sua.ServiceRating.MonetaryTariff != nil) {
						find("unknown-subscriber-rated-with-foreign-tariff", fmt.Sprintf("after rating %s: a debit request with Subscription-Id %s was answered with price %d (session %q)", after, mode, sua.ServiceRating.Price, sua.SessionId))
					}
				}
			}
			for i, cost := range a.Costs {
				imsi := fmt.Sprintf("20893000000%04d", i)
				if i == 0 {
					defer foreign(fmt.Sprintf("subscriber %s (unit cost %q)", imsi, cost))
				}
				cls := costClass(cost)
				var u uint64
				if cls == "integer" {
					u, _ = strconv.ParseUint(cost, 10, 32)
				}
				vals := []uint32{0, 1, 2, 99, 1000, 65535, 65536, 1 << 31, math.MaxUint32}
				if u > 1 {
					vals = append(vals, uint32(u-1), uint32(u), uint32(u+1), uint32(7*u), uint32(7*u+u-1))
				}
				for _, sub := range []cd.RequestSubType{cd.REQ_SUBTYPE_RESERVE, cd.REQ_SUBTYPE_DEBIT, cd.REQ_SUBTYPE_AOC, cd.REQ_SUBTYPE_RELEASE} {
					for _, v := range vals {
						out.Requests++
						what := fmt.Sprintf("stored unit cost %q, sub-type %d, consumed units / monetary quota %d", cost, sub, v)
						sua, e := ask(imsi, sub, v, v)
						if e != "" {
							find("server-does-not-answer/"+cls+"-unit-cost", what+": "+e)
							// the server must keep serving other subscribers
							if s2, e2 := ask("208930000009999", cd.REQ_SUBTYPE_DEBIT, 5, 0); e2 != "" || s2.ServiceRating == nil || s2.ServiceRating.Price != 15 {
								find("server-stops-serving-others", what+": afterwards a debit request of another subscriber got "+e2)
							}
							continue
						}
						sr := sua.ServiceRating
						if string(sua.SessionId) != "rate-1" || sr == nil || sr.MonetaryTariff == nil || sr.MonetaryTariff.RateElement == nil || sr.MonetaryTariff.RateElement.UnitCost == nil {
							find("answer-incomplete", what+fmt.Sprintf(": session %q, rating %+v", sua.SessionId, sr))
							continue
						}
						uc := sr.MonetaryTariff.RateElement.UnitCost
						// what the CHF decodes from the tariff (same arithmetic as getUnitCost)
						chf := uint32(uc.ValueDigits) * uint32(math.Pow10(int(uc.Exponent)))
						applied := uint64(chf)
						if cls == "decimal" {
							// the stored value is digits / 10^decimals: the tariff must say so (Unit-Value = digits x 10^exponent)
							dot := strings.Index(cost, ".")
							digits, _ := strconv.ParseInt(strings.Replace(cost, ".", "", 1), 10, 64)
							decimals := len(cost) - dot - 1
							switch {
							case int64(uc.ValueDigits) == digits && int(uc.Exponent) == -decimals:
							case decimals > 0 && int64(uc.ValueDigits) == digits && int(uc.Exponent) == decimals:
								// positively recognised known defect: the exponent is written with the wrong sign, the value is
								// taken 10^(2 x decimals) times too large by server and CHF alike
								find("decimal-unit-cost-exponent-sign", what+fmt.Sprintf(": tariff digits %d exponent %+d, i.e. %d per unit for a stored unit cost of %s", uc.ValueDigits, uc.Exponent, chf, cost))
							default:
								find("tariff-not-the-stored-decimal", what+fmt.Sprintf(": tariff digits %d exponent %+d for a stored unit cost of %s", uc.ValueDigits, uc.Exponent, cost))
							}
						}
						if cls == "integer" {
							if uint64(chf) != u {
								find("tariff-decodes-to-other-unit-cost", what+fmt.Sprintf(": tariff digits %d exponent %d decode to %d at the CHF", uc.ValueDigits, uc.Exponent, chf))
							}
							applied = u
						}
						switch sub {
						case cd.REQ_SUBTYPE_DEBIT:
							exact := uint64(v) * applied
							if exact <= math.MaxUint32 && uint64(sr.Price) != exact {
								find("debit-price-not-exact/"+cls, what+fmt.Sprintf(": price %d, expected %d x %d = %d", sr.Price, v, applied, exact))
							}
						case cd.REQ_SUBTYPE_RESERVE:
							if cls == "integer-beyond-32-bits" && (sr.AllowedUnits != 0 || sr.Price != 0) {
								find("reserve-rating-not-exact/"+cls, what+fmt.Sprintf(": allowed units %d price %d, but a quota of %d buys no unit at a unit cost of %s", sr.AllowedUnits, sr.Price, v, cost))
							}
							if applied == 0 {
								break
							}
							allowed := uint64(v) / applied
							if uint64(sr.AllowedUnits) != allowed || uint64(sr.Price) != allowed*applied || uint64(sr.Price) > uint64(v) {
								find("reserve-rating-not-exact/"+cls, what+fmt.Sprintf(": allowed units %d price %d, expected allowed %d price %d", sr.AllowedUnits, sr.Price, allowed, allowed*applied))
							}
						}
						if len(out.Samples) < 3 && v == 1000 {
							out.Samples = append(out.Samples, what+fmt.Sprintf(" -> allowed %d price %d tariff %d*10^%d", sr.AllowedUnits, sr.Price, uc.ValueDigits, uc.Exponent))
						}
					}
				}
			}
		})
	}, nil)
	if o.Panic != "" || o.Res.Err != "" {
		return nil, fmt.Errorf("engine: %s %s", o.Panic, o.Res.Err)
	}
	if o.Res.Deadlock {
		find("blocked-forever", fmt.Sprint(o.Res.Blocked))
	}
	for _, p := range o.ThPanics {
		find("driver-panic", oneLine(p, 300))
	}
	return out, nil
}

func init() {
	jobHandlers["c08"] = c08Job
	checks["C08"] = func(t *testing.T) int {
		rep := NewReport("C08")
		pool := NewPool(0)
		costs := []string{"1", "2", "3", "10", "100", "255", "256", "65535", "65536", "4294967295", "0", "00", "007", "0.5", "1.5", "2.50", "1.", ".5", "0.25", "0.08", "0.10", "0.125", "12.75", "010", "08", "0009", "429496729.6", "8589934592", "4294967297", "5000000000", "42949672.97", "+4", "   ", "", "abc", "-1", "1e3", " 2", "2 ", "4294967296", "99999999999999999999", "1,5", "0x10", "١"}
		if rep.Tier == "thorough" {
			for i := 4; i <= 40; i++ {
				costs = append(costs, strconv.Itoa(i*i*i+1))
			}
		}
		var jobs []Job
		for i := 0; i < len(costs); i += 2 {
			jobs = append(jobs, Job{Kind: "c08", Args: mustJSON(c08Args{Costs: costs[i:min(i+2, len(costs))]})})
		}
		reqs := 0
		rules := map[string]int{}
		var samples []string
		exhaustive := true
		for i, r := range pool.RunAll(jobs) {
			if r.Crash != "" {
				rep.Finding("process-crash", fmt.Sprintf("unit costs %s: the process hosting the rating server died: %s", jobs[i].Args, oneLine(r.Crash, 400)), map[string]any{"job": json.RawMessage(jobs[i].Args), "kind": "c08"})
				continue
			}
			if r.Err != "" {
				rep.EngineError(r.Err)
				exhaustive = false
				continue
			}
			var o c08Out
			json.Unmarshal(r.Out, &o)
			reqs += o.Requests
			samples = append(samples, o.Samples...)
			for k, v := range o.Rules {
				rules[k] += v
			}
			for _, f := range o.Finds {
				rep.Finding(f.Rule, f.Detail, map[string]any{"job": json.RawMessage(jobs[i].Args), "kind": "c08", "case": f.Detail})
			}
		}
		if len(samples) > 5 {
			samples = samples[:5]
		}
		// CHF side: every unit-cost string through the real processor
		var cjobs []Job
		for i := 0; i < len(costs); i += 4 {
			cjobs = append(cjobs, Job{Kind: "c08chf", Args: mustJSON(c08Args{Costs: costs[i:min(i+4, len(costs))]})})
		}
		chfChecked := 0
		for i, r := range pool.RunAll(cjobs) {
			if r.Crash != "" || r.Err != "" {
				rep.EngineError("c08chf: " + r.Err + oneLine(r.Crash, 300))
				exhaustive = false
				continue
			}
			var o c08ChfOut
			json.Unmarshal(r.Out, &o)
			chfChecked += o.Checked
			for _, f := range o.Finds {
				rep.Finding(f.Rule, f.Detail, map[string]any{"job": json.RawMessage(cjobs[i].Args), "kind": "c08chf", "case": f.Detail})
			}
		}
		rep.Cov["unit_costs_decoded_by_the_real_chf"] = chfChecked
		hcov, hreqs, hex := c08Histories(rep, pool)
		if !hex {
			exhaustive = false
		}
		rep.Cov["request_histories"] = hcov
		reqs += hreqs
		per, sexecs, sex := c08Schedules(rep, pool)
		if !sex {
			exhaustive = false
		}
		rep.Cov["concurrent_peers"] = per
		rep.Cov["race_pass"] = racePass(rep, "peers/rf")
		rep.Cov["schedules"] = sexecs
		rep.Cov["states"] = len(costs)
		rep.Cov["transitions"] = reqs + sexecs
		rep.Cov["traces_validated_against_impl"] = reqs + sexecs
		rep.Cov["evaluations"] = reqs + sexecs
		rep.Cov["distinct_nontrivial"] = reqs
		rep.Cov["rule"] = "every stored unit-cost string of the alphabet (integers incl. 0 and 2^32-1, leading zeros, decimal fractions, empty, non-numeric, negative, exponent, padded, overflowing) x 4 request sub-types x consumed/quota values {0,1,2,99,1000,65535,65536,2^31,2^32-1,u-1,u,u+1,7u,8u-1}; each sent over a real Diameter connection to the server started by rf.OpenServer; plus (concurrent_peers) every schedule within the PARK bound of two / three peers with one request each in flight on separate connections, placed at the server's and peers' network, database and dispatcher operations; distinct_nontrivial counts the sequential requests only"
		rep.Cov["unit_cost_strings"] = costs
		rep.Cov["finding_counts"] = rules
		rep.Cov["exhaustive"] = exhaustive
		if len(samples) == 0 {
			samples = []string{"(none)"}
		}
		rep.Cov["samples"] = samples
		return rep.Finish()
	}
}
