//go:build verif && go1.23

package zzverif

import (
	"context"
	"encoding/json"
	"fmt"
	"os"
	"path/filepath"
	"reflect"
	"regexp"
	"runtime"
	"sort"
	"strings"
	"sync"
	"testing"
	"time"

	"github.com/fiorix/go-diameter/diam"
	"github.com/fiorix/go-diameter/diam/datatype"
	"github.com/fiorix/go-diameter/diam/dict"

	charging_code "github.com/free5gc/chf/ccs_diameter/code"
	cd "github.com/free5gc/chf/ccs_diameter/datatype"
	"github.com/free5gc/chf/cdr/asn"

	chf_context "github.com/free5gc/chf/internal/context"
	"github.com/free5gc/chf/internal/sbi"
	"github.com/free5gc/chf/internal/sbi/processor"
	"github.com/free5gc/chf/pkg/abmf"
	"github.com/free5gc/chf/pkg/factory"
	"github.com/free5gc/chf/pkg/rf"
	"github.com/free5gc/util/mongoapi"
	"verif.local/vs"
	"verif.local/vs/vos"
)

// Free-running race pass (side pass of C09): the same scenario bodies, real goroutines, no controlled scheduler,
// every modelled object falls back to the real primitive it stands for, binary built with -race.
// The cooperative scheduler's hand-offs are happens-before edges that would blind the detector; here there are none.

func settleGoroutines() {
	prev := -1
	for i := 0; i < 40; i++ {
		n := runtime.NumGoroutine()
		if n == prev {
			return
		}
		prev = n
		time.Sleep(15 * time.Millisecond)
	}
}

func runFree(cfg WorldCfg, body func(w *World)) {
	vs.Passive()
	vs.S.Free = true
	diam.MemReset()
	dict.ResetDefault()
	mongoapi.Reset()
	vos.Reset()
	notesMu.Lock()
	notes = nil
	notesMu.Unlock()
	factory.ChfConfig = baseConfig(cfg)
	ctx, cancel := context.WithCancel(context.Background())
	resetGlobalContext()
	chf_context.Init()
	self := chf_context.GetSelf()
	reflect.ValueOf(self).Elem().FieldByName("LocalRecordSequenceNumber").SetUint(cfg.LocalSeq) // (by reflection: the harness must build whatever the counter's width)
	cgfSetup(cfg)
	var wg sync.WaitGroup
	wg.Add(2)
	rf.OpenServer(ctx, &wg)
	abmf.OpenServer(ctx, &wg)
	docs := []map[string]interface{}{}
	for _, a := range cfg.Accounts {
		docs = append(docs, map[string]interface{}{"ueId": a.Supi, "ratingGroup": a.RG, "quota": a.Quota, "unitCost": a.UnitCost})
	}
	mongoapi.Docs[chargingColl] = docs
	p, _ := processor.NewProcessor(nil)
	w := &World{Cfg: cfg, P: p, Start: time.Now()}
	srv, err := sbi.NewServer(&stubApp{p: p}, "")
	if err != nil {
		panic(err)
	}
	w.Router = sbi.VerifRouter(srv)
	time.Sleep(5 * time.Millisecond) // listeners up
	if cfg.RfPort > 0 {
		waitListening(cfg.RfPort, cfg.AbmfPort)
	}
	body(w)
	cancel()
	diam.MemCloseAll()
	settleGoroutines()
}

type raceArgs struct {
	Scen  string `json:"scen"`
	Iters int    `json:"iters"`
}

type raceOut struct {
	Runs    int       `json:"runs"`
	Reports []string  `json:"reports"`
	Finds   []Finding `json:"finds"`
	Failed  []string  `json:"failed"`
}

var raceFrame = regexp.MustCompile(`(?m)^  (\S+)\(.*\)\n\s+(\S+):(\d+)`)

// parseRaceReports extracts one signature per report: the innermost frames of both accesses that lie in the chf module.
func parseRaceReports(log string) (sigs []string, full []string) {
	for _, blk := range strings.Split(log, "==================") {
		if !strings.Contains(blk, "WARNING: DATA RACE") {
			continue
		}
		parts := regexp.MustCompile(`(?m)^(Previous )?(Read|Write|read|write) at `).Split(blk, -1)
		var acc []string
		for _, part := range parts[1:] {
			end := strings.Index(part, "\n\n")
			if end > 0 {
				part = part[:end]
			}
			fr := ""
			harness := false
			first := true
			for _, m := range raceFrame.FindAllStringSubmatch(part, -1) {
				fn, file := m[1], m[2]
				if strings.HasPrefix(fn, "runtime.") || strings.HasPrefix(fn, "internal/runtime") || strings.HasPrefix(fn, "sync.") || strings.HasPrefix(fn, "sync/atomic") {
					continue
				}
				if first {
					// the innermost non-runtime frame tells whose memory access this is
					first = false
					if strings.Contains(fn, "/zzverif") || strings.HasPrefix(fn, "verif.local/") || strings.Contains(file, "/mongoapi/mongoapi.go") || strings.HasSuffix(file, "diam/network.go") {
						harness = true
					}
				}
				if strings.Contains(fn, "/zzverif.") {
					// third-party code called directly by the harness (set-up, tear-down): not a CHF access
					harness = true
					break
				}
				if strings.Contains(fn, "github.com/free5gc/chf/") {
					fr = strings.TrimPrefix(fn, "github.com/free5gc/chf/")
					_ = file
					break
				}
			}
			if harness {
				fr = "(harness)"
			}
			if fr == "" {
				fr = "(outside chf)"
			}
			acc = append(acc, fr)
		}
		if len(acc) >= 2 && acc[0] != "(harness)" && acc[1] != "(harness)" {
			a := acc[:2]
			sort.Strings(a)
			sigs = append(sigs, a[0]+" <-> "+a[1])
			full = append(full, oneLine(blk, 1500))
		}
	}
	return
}

func raceJob(t *testing.T, raw json.RawMessage) (any, error) {
	var a raceArgs
	json.Unmarshal(raw, &a)
	if strings.HasPrefix(a.Scen, "peers/") {
		return racePeersJob(a)
	}
	if a.Scen == "codec/concurrent-first-use" {
		return raceCodecJob(a)
	}
	var sc *concScenario
	for _, s := range concScenarios() {
		if s.Name == a.Scen {
			s := s
			sc = &s
		}
	}
	if sc == nil {
		return nil, fmt.Errorf("unknown scenario %s", a.Scen)
	}
	supis := []string{supiA, supiB}
	if sc.Supis != nil {
		supis = sc.Supis
	}
	out := raceOut{}
	for it := 0; it < a.Iters; it++ {
		runFree(WorldCfg{Accounts: sc.Accounts, LocalSeq: sc.LocalSeq, Cgf: sc.Cgf}, func(w *World) {
			h := w.ExecOps(supis, sc.Pre, len(sc.Pre), false)
			nPre := len(h.Sess)
			var wg sync.WaitGroup
			start := make(chan struct{})
			for k := range sc.Conc {
				k := k
				wg.Add(1)
				go func() {
					defer wg.Done()
					defer func() {
						if r := recover(); r != nil {
							out.Failed = append(out.Failed, fmt.Sprint(r))
						}
					}()
					hk := &HistRun{Sess: append([]*Sess(nil), h.Sess[:nPre]...)}
					<-start
					w.execOn(supis, hk, []Op{sc.Conc[k]})
				}()
			}
			close(start)
			done := make(chan struct{})
			go func() { wg.Wait(); close(done) }()
			select {
			case <-done:
			case <-time.After(60 * time.Second):
				out.Failed = append(out.Failed, "requests did not complete within 60 s of real time (not a verdict)")
			}
		})
		out.Runs++
	}
	collectRaceReports(a.Scen, &out)
	return out, nil
}

// collectRaceReports reads the detector's reports written so far by this process.
func collectRaceReports(scen string, out *raceOut) {
	files, _ := filepath.Glob(os.Getenv("VRACE_LOG") + ".*")
	seen := map[string]bool{}
	for _, f := range files {
		b, _ := os.ReadFile(f)
		os.Truncate(f, 0)
		sigs, full := parseRaceReports(string(b))
		for i, sg := range sigs {
			if !seen[sg] {
				seen[sg] = true
				out.Finds = append(out.Finds, Finding{"data-race/" + sg, fmt.Sprintf("scenario %s: %s", scen, full[i])})
			}
		}
	}
}

// raceCodecJob: the BER codec used by several goroutines at once, each meeting types the process has not marshalled or
// unmarshalled before (the charging requests of different subscribers encode their records concurrently; anything the
// codec remembers per type is shared state).
func raceCodecJob(a raceArgs) (any, error) {
	out := raceOut{}
	var mu sync.Mutex
	names := sortedKeys(cdrTypeRegistry)
	for it := 0; it < a.Iters; it++ {
		// struct types nobody has seen yet: the tag numbers make every iteration's types new
		var fresh []reflect.Type
		for k := 0; k < 24; k++ {
			fresh = append(fresh, reflect.StructOf([]reflect.StructField{
				{Name: "A", Type: reflect.TypeOf(int64(0)), Tag: reflect.StructTag(fmt.Sprintf(`ber:"tagNum:%d"`, 1000*it+k))},
				{Name: "B", Type: reflect.PointerTo(asn.OctetStringType), Tag: reflect.StructTag(fmt.Sprintf(`ber:"tagNum:%d,optional"`, 1000*it+k+500))}}))
		}
		var wg sync.WaitGroup
		start := make(chan struct{})
		for g := 0; g < 8; g++ {
			g := g
			wg.Add(1)
			go func() {
				defer wg.Done()
				defer func() {
					if r := recover(); r != nil {
						mu.Lock()
						out.Failed = append(out.Failed, fmt.Sprint(r))
						mu.Unlock()
					}
				}()
				<-start
				for i := range fresh {
					t := fresh[(i+3*g)%len(fresh)]
					v := reflect.New(t)
					v.Elem().Field(0).SetInt(int64(g))
					if b, err := asn.BerMarshal(v.Interface()); err == nil {
						asn.Unmarshal(b, reflect.New(t).Interface())
					}
				}
				if it == 0 {
					// the schema types, each goroutine in its own order
					for i := range names {
						t := cdrTypeRegistry[names[(i*7+g*13)%len(names)]]
						if b, err := asn.BerMarshal(reflect.New(t).Interface()); err == nil {
							asn.Unmarshal(b, reflect.New(t).Interface())
						}
					}
				}
			}()
		}
		close(start)
		wg.Wait()
		out.Runs++
	}
	collectRaceReports(a.Scen, &out)
	return out, nil
}

// racePeersJob: several Diameter peers, each on its own connection, have requests in flight at the rating server
// (peers/rf) or the account-balance server (peers/abmf) at the same time; free-running, under the race detector.
func racePeersJob(a raceArgs) (any, error) {
	out := raceOut{}
	var mu sync.Mutex
	fail := func(s string) { mu.Lock(); out.Failed = append(out.Failed, s); mu.Unlock() }
	accounts := []Account{{"imsi-208930000000001", 1, "1000", "3"}, {"imsi-208930000000002", 1, "1000", "0"}, {"imsi-208930000000003", 1, "1000", "abc"},
		{"imsi-208930000000004", 1, "1000", "7"}, {"imsi-208930000000002", 2, "500", ""}}
	for it := 0; it < a.Iters; it++ {
		runFree(WorldCfg{Accounts: accounts}, func(w *World) {
			var wg sync.WaitGroup
			start := make(chan struct{})
			const peers = 4
			for k := 0; k < peers; k++ {
				k := k
				wg.Add(1)
				go func() {
					defer wg.Done()
					defer func() {
						if r := recover(); r != nil {
							fail(fmt.Sprint(r))
						}
					}()
					addr, ans := "127.0.0.1:3868", "SUA"
					if a.Scen == "peers/abmf" {
						addr, ans = "127.0.0.1:3869", "CCA"
					}
					cli, err := dialPeer(addr, ans)
					if err != nil {
						fail("dial: " + err.Error())
						return
					}
					defer cli.conn.Close()
					<-start
					for n := 0; n < 3; n++ {
						imsi := fmt.Sprintf("20893000000000%d", 1+(k+n)%4)
						var cmd uint32
						var req any
						if a.Scen == "peers/abmf" {
							cmd = charging_code.ABMF_CreditControl
							req = &cd.AccountDebitRequest{SessionId: datatype.UTF8String(fmt.Sprintf("s-%d-%d", k, n)), OriginHost: "verif-client", OriginRealm: "go-diameter",
								RequestedAction: cd.RequestedAction(n % 2), CcRequestType: cd.CcRequestType(2), CcRequestNumber: datatype.Unsigned32(n),
								EventTimestamp: datatype.Time(time.Now()),
								SubscriptionId: &cd.SubscriptionId{SubscriptionIdType: cd.END_USER_IMSI, SubscriptionIdData: datatype.UTF8String(imsi)},
								MultipleServicesCreditControl: &cd.MultipleServicesCreditControl{RatingGroup: 1,
									RequestedServiceUnit: &cd.RequestedServiceUnit{CCTotalOctets: 10}, UsedServiceUnit: &cd.UsedServiceUnit{CCTotalOctets: 10}}}
						} else {
							cmd = charging_code.ServiceUsageMessage
							sub := []cd.RequestSubType{cd.REQ_SUBTYPE_RESERVE, cd.REQ_SUBTYPE_DEBIT, cd.REQ_SUBTYPE_RESERVE}[n]
							r := &cd.ServiceUsageRequest{SessionId: datatype.UTF8String(fmt.Sprintf("rate-%d-%d", k, n)), OriginHost: "verif-client", OriginRealm: "go-diameter", DestinationRealm: "go-diameter", DestinationHost: "server",
								UserName: datatype.OctetString("CHF"), ActualTime: datatype.Time(time.Now()),
								SubscriptionId: &cd.SubscriptionId{SubscriptionIdType: cd.END_USER_IMSI, SubscriptionIdData: datatype.UTF8String(imsi)},
								ServiceRating:  &cd.ServiceRating{ServiceIdentifier: 1, RequestSubType: sub}}
							srv := reflect.ValueOf(r.ServiceRating).Elem()
							srv.FieldByName("ConsumedUnits").SetUint(5)
							srv.FieldByName("MonetaryQuota").SetUint(100)
							req = r
						}
						msg := diam.NewRequest(cmd, charging_code.Re_interface, dict.Default)
						if err := msg.Marshal(req); err != nil {
							fail("marshal: " + err.Error())
							return
						}
						if _, err := msg.WriteTo(cli.conn); err != nil {
							return // (the server closed the connection)
						}
						select {
						case <-cli.answers:
						case <-time.After(2 * time.Second):
						}
					}
				}()
			}
			time.Sleep(2 * time.Millisecond)
			close(start)
			done := make(chan struct{})
			go func() { wg.Wait(); close(done) }()
			select {
			case <-done:
			case <-time.After(60 * time.Second):
				fail("peers did not complete within 60 s of real time (not a verdict)")
			}
		})
		out.Runs++
	}
	collectRaceReports(a.Scen, &out)
	return out, nil
}

func init() { jobHandlers["race"] = raceJob }

// racePool: workers of the -race build, their detector reports going to per-process log files.
func racePool(exe string, n int) (*Pool, string) {
	pool := NewPool(n)
	pool.Exe = exe
	pool.Procs = 4
	pool.Timeout = 15 * time.Minute
	logBase := filepath.Join(buildDir, "logs", fmt.Sprintf("race-%d", os.Getpid()))
	old, _ := filepath.Glob(logBase + "*")
	for _, f := range old {
		os.Remove(f)
	}
	pool.Env = []string{"GORACE=log_path=" + logBase + " exitcode=0 halt_on_error=0 history_size=2", "VRACE_LOG=" + logBase, "VWORKER_RECYCLE=100000"}
	return pool, logBase
}

// racePass runs every concurrent scenario free-running under the race detector.
func racePass(rep *Report, scens ...string) map[string]any {
	exe := os.Getenv("VRACE_BIN")
	if _, err := os.Stat(exe); err != nil {
		rep.EngineError("race pass: no -race build available (" + exe + ")")
		return map[string]any{"ran": false}
	}
	pool, logBase := racePool(exe, 8)
	iters := 15
	if rep.Tier == "thorough" {
		iters = 100
	}
	var jobs []Job
	var names []string
	if len(scens) == 0 {
		for _, sc := range concScenarios() {
			scens = append(scens, sc.Name)
		}
	}
	for _, sc := range scens {
		jobs = append(jobs, Job{Kind: "race", Args: mustJSON(raceArgs{Scen: sc, Iters: iters})})
		names = append(names, sc)
	}
	runs := 0
	sigs := map[string]bool{}
	for i, r := range pool.RunAll(jobs) {
		if r.Crash != "" {
			cls := ""
			switch {
			case strings.Contains(r.Crash, "concurrent map"):
				cls = "concurrent-map-access"
			case strings.Contains(r.Crash, "fatal error: sync:"):
				cls = "lock-misuse"
			case strings.Contains(r.Crash, "panic:"):
				cls = "panic"
			}
			if cls == "" {
				// a killed or timed-out free-running process (load, memory) says nothing about chf
				rep.EngineError(fmt.Sprintf("race pass %s: worker ended without result: %s", names[i], oneLine(r.Crash, 300)))
				continue
			}
			rep.Finding("race-pass-process-crash/"+cls+"/"+names[i], fmt.Sprintf("free-running scenario %s: the process died: %s", names[i], oneLine(r.Crash, 600)), map[string]any{"job": json.RawMessage(jobs[i].Args), "kind": "race"})
			continue
		}
		if r.Err != "" {
			rep.EngineError("race pass " + names[i] + ": " + r.Err)
			continue
		}
		var o raceOut
		json.Unmarshal(r.Out, &o)
		runs += o.Runs
		for _, f := range o.Finds {
			sigs[f.Rule] = true
			rep.Finding(f.Rule, f.Detail, map[string]any{"job": json.RawMessage(jobs[i].Args), "kind": "race"})
		}
		for _, f := range o.Failed {
			rep.EngineError("race pass " + names[i] + ": " + f)
		}
	}
	old, _ := filepath.Glob(logBase + "*")
	for _, f := range old {
		os.Remove(f)
	}
	var ss []string
	for s := range sigs {
		ss = append(ss, s)
	}
	sort.Strings(ss)
	return map[string]any{"ran": true, "scenario_runs": runs, "iterations_per_scenario": iters, "distinct_race_signatures": ss}
}
