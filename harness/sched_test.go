//go:build verif && go1.23

package zzverif

import (
	"encoding/json"
	"fmt"
	"sort"
	"strings"
	"testing"

	"verif.local/vs"
)

// ---------------------------------------------------------------------------------------
// schedule mode: deviation-bounded stateless exploration of interleavings / timer orders

type SchedArgs struct {
	Scen    string   `json:"scen"`
	Devs    [][2]int `json:"devs"`             // (point index, alternative) pairs, ascending
	ExpIdx  int      `json:"expIdx,omitempty"` // the last deviation point must reproduce the parent's enabled sets up to here
	ExpHash string   `json:"expHash,omitempty"`
	Trace   bool     `json:"trace,omitempty"`
}

type eligPoint struct {
	Idx  int    `json:"i"`
	Alts []int  `json:"a"`
	Hash string `json:"h"`
}

type SchedOut struct {
	Points   int         `json:"points"`
	FreeFrom int         `json:"freeFrom"`
	Elig     []eligPoint `json:"elig"`
	Obs      string      `json:"obs"`
	Finds    []Finding   `json:"finds"`
	Engine   string      `json:"engine,omitempty"`
	Blocked  []string    `json:"blocked,omitempty"`
	Holders  []string    `json:"holders,omitempty"`
	VT       int64       `json:"vtMs"`
	Trace    []string    `json:"trace,omitempty"`
}

// schedScenario: set-up in T0, then concurrent driver threads; observe returns the final observation and findings.
type schedScenario struct {
	Cfg     WorldCfg
	Body    func(w *World, sc *schedCtx)
	Observe func(w *World, sc *schedCtx) (string, []Finding)
	// Elig decides which alternatives of a point may be taken as deviations: def/alt are descriptions "thread:kind(obj)" or TIME/DELAY/PARK
	Elig func(def string, alt string) bool
}

type schedCtx struct {
	freeFrom int
	freeTo   int // 0: until the end
	Results  map[string]any
	threads  []*vs.Thread
}

// Free marks the start of the concurrent phase: deviations are only placed from here on.
func (sc *schedCtx) Free() { sc.freeFrom = len(vs.S.Points) }

// Stop ends the phase in which deviations may be placed (e.g. before a fault-free probe).
func (sc *schedCtx) Stop() { sc.freeTo = len(vs.S.Points) }

func (sc *schedCtx) Go(name string, fn func()) { sc.threads = append(sc.threads, vs.Go(name, fn)) }

var schedScenarios = map[string]func() schedScenario{}

func kindOf(desc string) string {
	i := strings.LastIndex(desc, ":")
	if i < 0 {
		return desc
	}
	k := desc[i+1:]
	if j := strings.Index(k, "("); j >= 0 {
		k = k[:j]
	}
	return k
}

func objOf(desc string) string {
	i := strings.Index(desc, "(")
	j := strings.LastIndex(desc, ")")
	if i < 0 || j < i {
		return ""
	}
	return desc[i+1 : j]
}

func schedJob(t *testing.T, raw json.RawMessage) (any, error) {
	var a SchedArgs
	if err := json.Unmarshal(raw, &a); err != nil {
		return nil, err
	}
	mk := schedScenarios[a.Scen]
	if mk == nil {
		return nil, fmt.Errorf("unknown scenario %q", a.Scen)
	}
	scn := mk()
	devs := map[int]int{}
	last := -1
	for _, d := range a.Devs {
		devs[d[0]] = d[1]
		last = max(last, d[0])
	}
	sc := &schedCtx{Results: map[string]any{}}
	var out SchedOut
	vs.S.Park, vs.S.Dup = true, true
	defer func() { vs.S.Park, vs.S.Dup, vs.S.Fine = false, false, false }()
	o := runWorld(t, scn.Cfg, devs, func(w *World) { scn.Body(w, sc) }, func(w *World) any {
		obs, fs := scn.Observe(w, sc)
		out.Obs, out.Finds = obs, fs
		return nil
	})
	out.Points = len(o.Points)
	out.FreeFrom = sc.freeFrom
	out.VT = o.Res.VirtTime.Milliseconds()
	if o.Panic != "" {
		out.Engine = "panic: " + o.Panic
	}
	if o.Res.Err != "" {
		out.Engine = o.Res.Err
	}
	if o.Res.Deadlock {
		out.Blocked, out.Holders = o.Res.Blocked, o.Res.Holders
		if len(out.Blocked) == 0 {
			out.Blocked = []string{"(unknown)"}
		}
	}
	for _, p := range o.ThPanics {
		out.Finds = append(out.Finds, Finding{"driver-panic", oneLine(p, 400)})
	}
	// the deviation prefix must have been reproduced exactly
	if len(a.Devs) > 0 && a.ExpHash != "" {
		if a.ExpIdx >= len(o.Hashes) || fmt.Sprintf("%x", o.Hashes[a.ExpIdx]) != a.ExpHash {
			out.Engine = fmt.Sprintf("replay divergence: point %d differs from the parent execution", a.ExpIdx)
		}
	}
	from := max(sc.freeFrom, last+1)
	for i := from; i < len(o.Points); i++ {
		if sc.freeTo > 0 && i >= sc.freeTo {
			break
		}
		p := o.Points[i]
		if len(p.Enabled) < 2 {
			continue
		}
		var alts []int
		for k := 1; k < len(p.Enabled); k++ {
			if scn.Elig == nil || scn.Elig(p.Enabled[0], p.Enabled[k]) {
				alts = append(alts, k)
			}
		}
		if len(alts) > 0 {
			out.Elig = append(out.Elig, eligPoint{i, alts, fmt.Sprintf("%x", o.Hashes[i])})
		}
	}
	if a.Trace {
		for i, p := range o.Points {
			if i >= sc.freeFrom-2 {
				out.Trace = append(out.Trace, fmt.Sprintf("%d: chose %d of %v", i, p.Chosen, p.Enabled))
			}
		}
	}
	return out, nil
}

func init() { jobHandlers["sched"] = schedJob }

type SchedStats struct {
	Execs, Diverged, Capped int
	Outcomes                map[string]int
	ByBound                 []int
	Samples                 []any
	MaxPoints               int
	EligPoints              int
}

// ExploreSchedules runs the scenario under every schedule with at most `bound` deviations.
func ExploreSchedules(pool *Pool, rep *Report, scen string, bound int, maxExecs int, st *SchedStats) {
	if st.Outcomes == nil {
		st.Outcomes = map[string]int{}
	}
	st.ByBound = make([]int, bound+1)
	type meta struct {
		devs [][2]int
	}
	mk := func(devs [][2]int, idx int, hash string) Job {
		return Job{Kind: "sched", Check: rep.Prop, Args: mustJSON(SchedArgs{Scen: scen, Devs: devs, ExpIdx: idx, ExpHash: hash})}
	}
	metas := map[int]meta{}
	tag := 0
	root := mk(nil, 0, "")
	root.Tag = tag
	metas[tag] = meta{}
	pool.Run([]Job{root}, func(j Job, r JobResult) []Job {
		m := metas[j.Tag]
		delete(metas, j.Tag)
		st.Execs++
		st.ByBound[len(m.devs)]++
		replay := map[string]any{"job": json.RawMessage(j.Args), "kind": "sched", "scenario": scen, "deviations": m.devs}
		if r.Crash != "" {
			rep.Finding("process-crash", fmt.Sprintf("[%s] schedule %v: the process died (fatal error / log.Fatal): %s", scen, m.devs, oneLine(r.Crash, 500)), replay)
			return nil
		}
		if r.Err != "" {
			rep.EngineError(fmt.Sprintf("[%s] %v: %s", scen, m.devs, r.Err))
			st.Diverged++
			return nil
		}
		var out SchedOut
		json.Unmarshal(r.Out, &out)
		if out.Engine != "" {
			rep.EngineError(fmt.Sprintf("[%s] %v: %s", scen, m.devs, out.Engine))
			st.Diverged++
			return nil
		}
		st.MaxPoints = max(st.MaxPoints, out.Points)
		if len(m.devs) == 0 {
			st.EligPoints = len(out.Elig)
		}
		key := out.Obs
		if out.Blocked != nil {
			key = "BLOCKED " + strings.Join(out.Blocked, ",") + " || " + out.Obs
			rep.Finding("blocked-forever/"+blockedClass(out.Blocked, out.Holders), fmt.Sprintf("[%s] schedule %v: never completes: waiting %v; others %v; %s", scen, m.devs, out.Blocked, out.Holders, oneLine(out.Obs, 300)), replay)
		}
		for _, f := range out.Finds {
			rep.Finding(f.Rule, fmt.Sprintf("[%s] schedule %v: %s", scen, m.devs, f.Detail), replay)
		}
		st.Outcomes[key]++
		if len(st.Samples) < 3 && len(m.devs) == min(bound, 1) {
			st.Samples = append(st.Samples, map[string]any{"scenario": scen, "deviations(point,alternative)": m.devs, "points": out.Points, "outcome": oneLine(out.Obs, 300)})
		}
		if len(m.devs) >= bound {
			return nil
		}
		var kids []Job
		for _, e := range out.Elig {
			for _, alt := range e.Alts {
				if maxExecs > 0 && st.Execs+len(metas)+len(kids) >= maxExecs {
					st.Capped++
					continue
				}
				nd := append(append([][2]int(nil), m.devs...), [2]int{e.Idx, alt})
				tag++
				k := mk(nd, e.Idx, e.Hash)
				k.Tag = tag
				metas[tag] = meta{nd}
				kids = append(kids, k)
			}
		}
		return kids
	})
}

func blockedClass(blocked, holders []string) string {
	var ks []string
	for _, b := range blocked {
		ks = append(ks, kindOf(b))
	}
	sort.Strings(ks)
	return strings.Join(ks, "+")
}
