//go:build verif && go1.23

package zzverif

import (
	"context"
	"encoding/json"
	"fmt"
	"net/http"
	"os"
	"path/filepath"
	"strings"
	"sync"
	"testing"
	"time"

	"github.com/golang-jwt/jwt/v5"
	"github.com/h2non/gock"

	chf_context "github.com/free5gc/chf/internal/context"
	"github.com/free5gc/chf/internal/sbi/consumer"
	"verif.local/vs"
)

// C13, registration part: "when the NRF has declared OAuth2 mandatory" is a fact the CHF learns from the answer to its
// own registration. The real consumer.RegisterNFInstance is run against an NRF (intercepted at the HTTP client) that
// answers 201 with customInfo.oauth2 = true / false / absent, for every shape of the configured NRF certificate
// (usable, not configured, file missing, file that is not a certificate). Afterwards every route is probed:
// whenever the NRF said oauth2 = true, a request without a token or with a token signed by another key answers 401
// and is not processed - whatever the state of the certificate (a CHF that cannot verify tokens must refuse them).

var nrfMode string // what the intercepted NRF answers: "oauth", "no-oauth", "plain"
var nrfMockOnce sync.Once

func nrfMockSetup() {
	nrfMockOnce.Do(func() {
		for _, m := range []struct {
			mode string
			info map[string]any
		}{{"oauth", map[string]any{"oauth2": true}}, {"no-oauth", map[string]any{"oauth2": false}}, {"plain", nil}, {"oauth-200", map[string]any{"oauth2": true}}} {
			mode := m.mode
			prof := map[string]any{"nfInstanceId": "11111111-2222-3333-4444-555555555555", "nfType": "CHF", "nfStatus": "REGISTERED"}
			if m.info != nil {
				prof["customInfo"] = m.info
			}
			mk := gock.New("http://127.0.0.10:8000").Put("/nnrf-nfm/v1/nf-instances/(.*)").Persist().
				AddMatcher(func(*http.Request, *gock.Request) (bool, error) { return nrfMode == mode, nil })
			if mode == "oauth-200" {
				// the NRF already knows the instance (the answer to an earlier registration was lost, or the CHF restarted):
				// 200 OK, no Location, the same profile with the same declaration
				mk.Reply(200).JSON(prof)
				continue
			}
			mk.Reply(201).SetHeader("Location", "http://127.0.0.10:8000/nnrf-nfm/v1/nf-instances/11111111-2222-3333-4444-555555555555").JSON(prof)
		}
	})
}

type c13RegArgs struct {
	Mode string `json:"mode"`
	Cert string `json:"cert"` // usable, unset, missing, garbage
}

type c13RegOut struct {
	Probes   int       `json:"probes"`
	Required bool      `json:"required"`
	RegErr   string    `json:"regErr"`
	Finds    []Finding `json:"finds"`
}

func c13RegJob(t *testing.T, raw json.RawMessage) (any, error) {
	var a c13RegArgs
	json.Unmarshal(raw, &a)
	oauthSetup()
	nrfMockSetup()
	cert := map[string]string{"usable": nrfCertPath, "unset": "", "missing": filepath.Join(buildDir, "certs", "no-such-file.pem"),
		"garbage": filepath.Join(buildDir, "certs", fmt.Sprintf("garbage-%d.pem", os.Getpid()))}[a.Cert]
	if a.Cert == "garbage" {
		os.WriteFile(cert, []byte("-----BEGIN CERTIFICATE-----\nbm90IGEgY2VydGlmaWNhdGU=\n-----END CERTIFICATE-----\n"), 0o600)
		defer os.Remove(cert)
	}
	scopeAll := "nchf-convergedcharging nchf-offlineonlycharging nchf-spendinglimitcontrol"
	var out c13RegOut
	cfg := WorldCfg{Accounts: []Account{{supiA, 1, "1000", "2"}}, NrfCert: cert}
	o := runWorld(t, cfg, nil, func(w *World) {
		vs.Go("T1", func() {
			cr := mkCreate(0, "smf1")
			_, loc, _ := w.P.ChargingDataCreate(cr.Request(supiA))
			ref := refOf(loc)
			up := Op{K: "update", MUs: []MU{{RG: 1, Req: 100, Conts: []Cont{{Vol: 0, Seq: 1}}}}}
			w.P.ChargingDataUpdate(up.Request(supiA), ref)
			vs.Quiesce()
			nrfMode = a.Mode
			cons, err := consumer.NewConsumer(&stubApp{p: w.P})
			if err != nil {
				out.RegErr = err.Error()
				return
			}
			ctx, cancel := context.WithTimeout(context.Background(), 10*time.Second)
			_, _, err = cons.RegisterNFInstance(ctx)
			cancel()
			if err != nil {
				out.RegErr = err.Error()
				return
			}
			vs.Quiesce()
			out.Required = chf_context.GetSelf().OAuth2Required
			if !strings.HasPrefix(a.Mode, "oauth") {
				return // (nothing is demanded when the NRF did not ask for OAuth2)
			}
			body := Op{K: "update", MUs: []MU{{RG: 1, Req: 100, Conts: []Cont{{Vol: 40, Seq: 2}}}}, Trig: []string{"VOLIMM"}}
			bodyJSON, _ := json.Marshal(body.Request(supiA))
			tokens := []struct{ name, hdr string }{{"absent", ""}, {"rs512-other-key", "Bearer " + mkToken(jwt.SigningMethodRS512, otherKey, scopeAll)}, {"bearer-not-a-jwt", "Bearer x"}}
			for _, rt := range w.Router.Routes() {
				path := rt.Path
				path = strings.ReplaceAll(path, ":ChargingDataRef", ref)
				path = strings.ReplaceAll(path, ":OfflineChargingDataRef", ref)
				path = strings.ReplaceAll(path, ":rechargingInfo", supiA+"_1")
				for strings.Contains(path, ":") {
					i := strings.Index(path, ":")
					j := strings.IndexAny(path[i:], "/")
					if j < 0 {
						path = path[:i] + "x"
					} else {
						path = path[:i] + "x" + path[i+j:]
					}
				}
				for _, tk := range tokens {
					pre := w.Snapshot(false)
					hdr := map[string]string{}
					if tk.hdr != "" {
						hdr["Authorization"] = tk.hdr
					}
					r := w.Do(rt.Method, path, string(bodyJSON), hdr)
					vs.Quiesce()
					post := w.Snapshot(false)
					out.Probes++
					what := fmt.Sprintf("after a registration answered (%s) with customInfo.oauth2=true, NRF certificate %s: %s %s with token %q", map[bool]string{true: "200 OK, instance already known to the NRF", false: "201 Created"}[a.Mode == "oauth-200"], a.Cert, rt.Method, rt.Path, tk.name)
					if r.Code != 401 {
						out.Finds = append(out.Finds, Finding{"registration/not-401/certificate-" + a.Cert, what + fmt.Sprintf(" answered %d %s", r.Code, oneLine(r.Body, 80))})
					}
					pv, qv := effectView(&pre), effectView(&post)
					pv["notes"], qv["notes"] = pre.Notes, post.Notes
					pv["dials"], qv["dials"] = pre.Dials, post.Dials
					if fmt.Sprint(pv) != fmt.Sprint(qv) {
						out.Finds = append(out.Finds, Finding{"registration/processed-although-unauthenticated/certificate-" + a.Cert, what + fmt.Sprintf(" answered %d and was processed: %s", r.Code, diffJSON(pv, qv))})
					}
				}
				if a.Cert == "usable" {
					r := w.Do(rt.Method, path, string(bodyJSON), map[string]string{"Authorization": "Bearer " + mkToken(jwt.SigningMethodRS512, nrfKey, scopeAll)})
					vs.Quiesce()
					if r.Code == 401 {
						out.Finds = append(out.Finds, Finding{"registration/control-token-rejected", fmt.Sprintf("%s %s with a valid NRF-signed token answered 401", rt.Method, rt.Path)})
					}
				}
			}
		})
	}, nil)
	nrfMode = ""
	if o.Panic != "" || o.Res.Err != "" {
		return nil, fmt.Errorf("engine: %s %s", o.Panic, o.Res.Err)
	}
	if out.RegErr != "" {
		return nil, fmt.Errorf("engine: registration against the intercepted NRF did not complete: %s", out.RegErr)
	}
	for _, p := range o.ThPanics {
		out.Finds = append(out.Finds, Finding{"registration/driver-panic", oneLine(p, 300)})
	}
	return out, nil
}

func init() { jobHandlers["c13reg"] = c13RegJob }

func c13Registration(rep *Report, pool *Pool) (cov []map[string]any, probes int, exhaustive bool) {
	exhaustive = true
	var jobs []Job
	var args []c13RegArgs
	for _, mode := range []string{"oauth", "oauth-200", "no-oauth", "plain"} {
		for _, cert := range []string{"usable", "unset", "missing", "garbage"} {
			a := c13RegArgs{Mode: mode, Cert: cert}
			args = append(args, a)
			jobs = append(jobs, Job{Kind: "c13reg", Args: mustJSON(a)})
		}
	}
	for i, r := range pool.RunAll(jobs) {
		if r.Crash != "" || r.Err != "" {
			rep.EngineError("c13reg: " + r.Err + oneLine(r.Crash, 300))
			exhaustive = false
			continue
		}
		var o c13RegOut
		json.Unmarshal(r.Out, &o)
		probes += o.Probes
		cov = append(cov, map[string]any{"nrf_answer": args[i].Mode, "nrf_certificate": args[i].Cert, "oauth2_required_afterwards": o.Required, "probes": o.Probes})
		if strings.HasPrefix(args[i].Mode, "oauth") && o.Probes == 0 {
			rep.EngineError("c13reg: no route probed for " + string(jobs[i].Args))
			exhaustive = false
		}
		for _, f := range o.Finds {
			rep.Finding(f.Rule, f.Detail, map[string]any{"job": json.RawMessage(jobs[i].Args), "kind": "c13reg", "case": f.Detail})
		}
	}
	return
}
