//go:build verif && go1.23

package zzverif

import (
	"fmt"
	"strings"

	"github.com/free5gc/chf/cdr/asn"
	"github.com/free5gc/chf/cdr/cdrType"
)

// C03, schedule part: two requests that each carry about half a record's worth of usage are in flight at the same
// time (same session; two sessions of one subscriber; an update next to the release of the session). Either one
// alone fits the open record, both together do not: whichever order they are served in, the second one has to go
// to a new record. Every placement of up to k preemptions at the lock, map, database and file operations of the two
// requests is explored; afterwards no record may exceed 65535 octets and every file written must parse.

func c03BulkOp(k string, s int, n int, first int32, trig ...string) Op {
	return Op{K: k, S: s, Trig: trig, MUs: []MU{{RG: 1, Req: -1, Conts: []Cont{{Vol: 10, Up: 3, Down: 7, SSU: 3, Seq: first, Offline: true}}, Bulk: n}}}
}

func c03ConcScenarios() []concScenario {
	crA1, crA2 := mkCreate(0, "smf1"), mkCreate(0, "smf2")
	crA2.CID = 11
	return []concScenario{
		{Name: "c03-bulk-bulk-same-session", Accounts: bigAccounts, Pre: []Op{crA1}, Conc: []Op{c03BulkOp("update", 0, 1900, 100000), c03BulkOp("update", 0, 1900, 200000)}},
		{Name: "c03-bulk-bulk-after-half-full", Accounts: bigAccounts, Pre: []Op{crA1, c03BulkOp("update", 0, 1300, 300000)}, Conc: []Op{c03BulkOp("update", 0, 1300, 100000), c03BulkOp("update", 0, 1300, 200000)}},
		{Name: "c03-bulk-bulk-two-sessions", Accounts: bigAccounts, Pre: []Op{crA1, crA2}, Conc: []Op{c03BulkOp("update", 0, 1900, 100000), c03BulkOp("update", 1, 1900, 200000)}},
	}
}

func c03SchedScenario(sc concScenario) func() schedScenario {
	base := concScenarioFn(sc, nil)
	return func() schedScenario {
		s := base()
		s.Observe = func(w *World, sctx *schedCtx) (string, []Finding) {
			var fs []Finding
			h, _ := sctx.Results["hist"].(*HistRun)
			results, _ := sctx.Results["results"].([]Step)
			if h == nil || len(results) < len(sc.Conc) {
				return "incomplete", nil
			}
			var codes []string
			for _, st := range results {
				codes = append(codes, fmt.Sprint(st.Resp.Code))
				if st.Resp.Panic != "" {
					fs = append(fs, Finding{"concurrent/handler-panic/" + sc.Name, oneLine(st.Resp.Panic, 200)})
				}
			}
			if over := oversizeRecords(h); len(over) > 0 {
				fs = append(fs, Finding{"concurrent/oversize-record/" + sc.Name, fmt.Sprintf("after the concurrent requests (answered %v): %s (no record may exceed 65535 octets)", codes, strings.Join(over, "; "))})
			}
			files, recs := 0, 0
			var sizes []string
			for _, fw := range fileWrites {
				files++
				f, err := refReadFile(fw.Data)
				if err != nil {
					fs = append(fs, Finding{"concurrent/file-malformed/" + sc.Name, fmt.Sprintf("file %s (%d octets) written during or after the concurrent requests: %v", fw.Name, len(fw.Data), err)})
					continue
				}
				for ri, r := range f.CdrList {
					recs++
					if err := walkTLV(r.CdrByte); err != nil {
						fs = append(fs, Finding{"concurrent/record-not-ber/" + sc.Name, fmt.Sprintf("file %s: record %d (%d octets): %v", fw.Name, ri, len(r.CdrByte), err)})
						continue
					}
					var rec cdrType.CHFRecord
					if err := asn.UnmarshalWithParams(r.CdrByte, &rec, "explicit,choice"); err != nil || rec.ChargingFunctionRecord == nil {
						fs = append(fs, Finding{"concurrent/record-not-chf-record/" + sc.Name, fmt.Sprintf("file %s: record %d does not decode as a CHF record: %v", fw.Name, ri, err)})
					}
				}
			}
			seen := map[string]bool{}
			for _, se := range h.Sess {
				if seen[se.Supi] {
					continue
				}
				seen[se.Supi] = true
				rs, _ := supiRecords(se.Supi)
				for _, r := range rs {
					v, _ := viewRecord(r)
					sizes = append(sizes, fmt.Sprint(len(v.Tags)))
				}
			}
			return fmt.Sprintf("codes=%v containers-per-record=%v files=%d", codes, sizes, files), fs
		}
		return s
	}
}

func init() {
	for _, sc := range c03ConcScenarios() {
		schedScenarios[sc.Name] = c03SchedScenario(sc)
	}
}

func c03Schedules(rep *Report, pool *Pool) (per []map[string]any, execs int, exhaustive bool) {
	exhaustive = true
	for _, sc := range c03ConcScenarios() {
		bound, capExecs := 2, 400
		if rep.Tier == "thorough" {
			bound, capExecs = 3, 6000
		}
		st := SchedStats{}
		ExploreSchedules(pool, rep, sc.Name, bound, capExecs, &st)
		execs += st.Execs
		if st.Capped > 0 || st.Diverged > 0 {
			exhaustive = false
		}
		var outs []string
		for o, n := range st.Outcomes {
			outs = append(outs, fmt.Sprintf("%s x%d", o, n))
		}
		per = append(per, map[string]any{"scenario": sc.Name, "deviation_bound": bound, "executions": st.Execs, "by_deviations": st.ByBound, "deviation_points_in_default_schedule": st.EligPoints,
			"distinct_outcomes": len(st.Outcomes), "capped_children": st.Capped, "engine_errors": st.Diverged, "outcomes": strings.Join(outs, "; ")})
	}
	return
}
