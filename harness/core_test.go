//go:build verif && go1.23

// Package zzverif is the model-checking harness for free5gc/chf.  It exists only in the
// build overlay (it is injected at <repo>/internal/zzverif so that it may import the
// module's internal packages); nothing of it lives in the repository.
package zzverif

import (
	"bufio"
	"encoding/json"
	"fmt"
	"os"
	"os/exec"
	"path/filepath"
	"regexp"
	"runtime"
	"sort"
	"strconv"
	"strings"
	"sync"
	"syscall"
	"testing"
	"time"
)

// ---------------------------------------------------------------------------------------
// environment

var (
	verifDir = envOr("VERIF_DIR", "/verif")
	buildDir = filepath.Join(verifDir, ".build")
)

func envOr(k, d string) string {
	if v := os.Getenv(k); v != "" {
		return v
	}
	return d
}

func envInt(k string, d int) int {
	if v, err := strconv.Atoi(os.Getenv(k)); err == nil {
		return v
	}
	return d
}

// ---------------------------------------------------------------------------------------
// jobs: the unit of work a coordinator hands to a worker process

type Job struct {
	ID    int             `json:"id"`
	Tag   int             `json:"tag,omitempty"` // caller's index, preserved
	Check string          `json:"check"`
	Kind  string          `json:"kind"`
	Args  json.RawMessage `json:"args"`
}

type JobResult struct {
	ID    int             `json:"id"`
	Err   string          `json:"err,omitempty"`   // engine error (never a verdict)
	Crash string          `json:"crash,omitempty"` // worker process died while running this job
	Bye   bool            `json:"bye,omitempty"`   // worker recycles itself after this job
	Stall string          `json:"stall,omitempty"` // the world stopped for good outside the scheduler's control (see stallWatch)
	Out   json.RawMessage `json:"out,omitempty"`
}

func mustJSON(v any) json.RawMessage {
	b, err := json.Marshal(v)
	if err != nil {
		panic(err)
	}
	return b
}

// jobHandlers is filled by each check's init(): kind -> function run inside a worker.
var jobHandlers = map[string]func(t *testing.T, args json.RawMessage) (any, error){}

// workerMustRecycle is set by a job that leaves something behind that must not live on (a decode that never returns).
var workerMustRecycle bool

// TestWorker is the worker loop: one JSON job per line on stdin, one JSON result per line on fd 3.
func TestWorker(t *testing.T) {
	if os.Getenv("VWORKER") == "" {
		t.Skip("worker mode only")
	}
	// address-space cap: an exploding enumeration must kill the worker, not the sandbox
	lim := uint64(envInt("VWORKER_AS_GB", 6)) << 30
	_ = syscall.Setrlimit(syscall.RLIMIT_AS, &syscall.Rlimit{Cur: lim, Max: lim})
	workerInit()
	out := os.NewFile(3, "results")
	in := bufio.NewReaderSize(os.Stdin, 1<<20)
	w := bufio.NewWriter(out)
	maxJobs := envInt("VWORKER_RECYCLE", 400)
	for n := 0; ; n++ {
		line, err := in.ReadBytes('\n')
		if len(line) == 0 && err != nil {
			return
		}
		var j Job
		if e := json.Unmarshal(line, &j); e != nil {
			fmt.Fprintf(w, "%s\n", mustJSON(JobResult{ID: -1, Err: "bad job: " + e.Error()}))
			w.Flush()
			continue
		}
		res := JobResult{ID: j.ID}
		stopWatch := stallWatch(j, w)
		h := jobHandlers[j.Kind]
		if h == nil {
			res.Err = "unknown job kind " + j.Kind
		} else {
			func() {
				defer func() {
					if r := recover(); r != nil {
						buf := make([]byte, 1<<14)
						buf = buf[:runtime.Stack(buf, false)]
						res.Err = fmt.Sprintf("handler panic: %v\n%s", r, buf)
					}
				}()
				o, e := h(t, j.Args)
				if e != nil {
					res.Err = e.Error()
				} else {
					res.Out = mustJSON(o)
				}
			}()
		}
		stopWatch()
		// recycle: leaked goroutines of dead bubbles accumulate in this process
		res.Bye = n+1 >= maxJobs || workerMustRecycle
		b := mustJSON(res)
		w.Write(b)
		w.WriteByte('\n')
		w.Flush()
		if res.Bye {
			return
		}
	}
}

// stallWatch: a world can stop for good in a way the gate scheduler does not see - a goroutine of the code under test
// blocks in an operation on a channel (or lock) that was created outside the world, e.g. at package level. The
// virtual clock then never advances again and the job would sit there until the coordinator's time-out. A watchdog
// outside the world notices that the process has used no CPU for stallAfter of real time while the job is unfinished,
// reads the goroutine dump and ends the worker with a result that names the blocked goroutine: a goroutine of the
// world with a chf frame, blocked for minutes in a channel / lock operation the world does not own, while the whole
// process is idle, can only be woken by a timer - and every timer of chf is far shorter than the wait.
// Anything else that stalls is reported as an engine error, never as a verdict.
const stallAfter = 150 * time.Second

var stallHdr = regexp.MustCompile(`^goroutine \d+ \[([^\]]*)\]:`)

func cpuSeconds() float64 {
	var ru syscall.Rusage
	syscall.Getrusage(syscall.RUSAGE_SELF, &ru)
	return float64(ru.Utime.Sec+ru.Stime.Sec) + float64(ru.Utime.Usec+ru.Stime.Usec)/1e6
}

func stallWatch(j Job, w *bufio.Writer) (stop func()) {
	done := make(chan struct{})
	go func() {
		last, since := cpuSeconds(), time.Now()
		for {
			select {
			case <-done:
				return
			case <-time.After(5 * time.Second):
			}
			if c := cpuSeconds(); c-last > 0.25 {
				last, since = c, time.Now()
				continue
			}
			if time.Since(since) < stallAfter {
				continue
			}
			buf := make([]byte, 8<<20)
			buf = buf[:runtime.Stack(buf, true)]
			res := JobResult{ID: j.ID, Bye: true, Err: "stalled: the worker used no CPU for " + stallAfter.String() + " with the job unfinished (no verdict)"}
			for _, g := range strings.Split(string(buf), "\n\n") {
				m := stallHdr.FindStringSubmatch(g)
				if m == nil || !strings.Contains(m[1], "synctest bubble") || strings.Contains(m[1], "(durable)") || !strings.Contains(m[1], "minutes") {
					continue
				}
				st := m[1]
				if !(strings.HasPrefix(st, "chan ") || strings.HasPrefix(st, "select") || strings.HasPrefix(st, "sync.") || strings.HasPrefix(st, "semacquire")) {
					continue
				}
				fn := ""
				lines := strings.Split(g, "\n")
				for i := 1; i < len(lines); i++ {
					l := strings.TrimSpace(lines[i])
					if strings.HasPrefix(l, "github.com/free5gc/chf/") && !strings.Contains(l, "/zzverif") {
						fn = strings.TrimPrefix(l[:strings.LastIndex(l, "(")], "github.com/free5gc/chf/")
						break
					}
				}
				if fn == "" {
					continue
				}
				res.Stall = fmt.Sprintf("%s blocked [%s] in an operation on a channel or lock that no goroutine of the world will ever complete (the whole process has been idle since): %s", fn, st, oneLine(g, 900))
				res.Err = ""
				break
			}
			w.Write(mustJSON(res))
			w.WriteByte('\n')
			w.Flush()
			os.Exit(0)
		}
	}()
	return func() { close(done) }
}

// curReport: the report of the check this coordinator process runs (stalled jobs are classified centrally)
var curReport *Report

// ---------------------------------------------------------------------------------------
// worker pool (coordinator side)

type worker struct {
	id     int
	cmd    *exec.Cmd
	stdin  *bufio.Writer
	res    *bufio.Reader
	cur    *Job
	logf   string
	closer []*os.File
}

type Pool struct {
	N       int
	Env     []string
	Timeout time.Duration // per job wall-clock cap (a hung worker is killed; the job gets a Crash result "timeout")
	Exe     string        // worker executable (default: this binary); the race pass uses the -race build
	Procs   int           // GOMAXPROCS of the workers (default 1)
	Crashes int
	Jobs    int
	mu      sync.Mutex
}

func NewPool(n int) *Pool {
	if n <= 0 {
		n = envInt("VERIF_WORKERS", runtime.NumCPU())
	}
	return &Pool{N: n}
}

func (p *Pool) start(id int) (*worker, error) {
	self, _ := os.Executable()
	if p.Exe != "" {
		self = p.Exe
	}
	logf := filepath.Join(buildDir, "logs", fmt.Sprintf("worker-%s-%d.log", os.Getenv("VCHECK"), id))
	os.MkdirAll(filepath.Dir(logf), 0o755)
	lf, err := os.Create(logf)
	if err != nil {
		return nil, err
	}
	cmd := exec.Command(self, "-test.run", "^TestWorker$", "-test.timeout", "0")
	procs := "1"
	if p.Procs > 0 {
		procs = strconv.Itoa(p.Procs)
	}
	cmd.Env = append(os.Environ(), "VWORKER=1", "GOMAXPROCS="+procs, "GODEBUG=asynctimerchan=0", "GOTRACEBACK=single")
	cmd.Env = append(cmd.Env, p.Env...)
	cmd.Stdout, cmd.Stderr = lf, lf
	inR, inW, _ := os.Pipe()
	outR, outW, _ := os.Pipe()
	cmd.Stdin = inR
	cmd.ExtraFiles = []*os.File{outW}
	if err := cmd.Start(); err != nil {
		return nil, err
	}
	inR.Close()
	outW.Close()
	lf.Close()
	return &worker{id: id, cmd: cmd, stdin: bufio.NewWriter(inW), res: bufio.NewReaderSize(outR, 1<<20), logf: logf, closer: []*os.File{inW, outR}}, nil
}

func (w *worker) stop() {
	for _, f := range w.closer {
		f.Close()
	}
	if w.cmd.Process != nil {
		w.cmd.Process.Kill()
	}
	w.cmd.Wait()
}

func tailFile(path string, n int) string {
	b, err := os.ReadFile(path)
	if err != nil {
		return ""
	}
	if len(b) > n {
		b = b[len(b)-n:]
	}
	return string(b)
}

// Run executes initial jobs and every job returned by onResult (called serially) until no
// work is left.  A worker that dies is restarted and the job it was running gets a Crash result.
func (p *Pool) Run(initial []Job, onResult func(j Job, r JobResult) []Job) {
	type done struct {
		wid int
		j   Job
		r   JobResult
	}
	queue := append([]Job(nil), initial...)
	nextID := 0
	for i := range queue {
		queue[i].ID = nextID
		nextID++
	}
	results := make(chan done, p.N*2)
	feeds := make([]chan Job, p.N)
	var wg sync.WaitGroup
	for i := 0; i < p.N; i++ {
		feeds[i] = make(chan Job, 1)
		wg.Add(1)
		go func(id int) {
			defer wg.Done()
			var w *worker
			defer func() {
				if w != nil {
					w.stop()
				}
			}()
			for j := range feeds[id] {
				var r JobResult
				for attempt := 0; ; attempt++ {
					if w == nil {
						var err error
						if w, err = p.start(id); err != nil {
							r = JobResult{ID: j.ID, Err: "cannot start worker: " + err.Error()}
							break
						}
					}
					b := mustJSON(j)
					w.stdin.Write(b)
					w.stdin.WriteByte('\n')
					if err := w.stdin.Flush(); err != nil {
						w.stop()
						w = nil
						if attempt == 0 {
							continue // worker had exited (recycle) before the job was written
						}
						r = JobResult{ID: j.ID, Crash: "worker unusable: " + err.Error()}
						break
					}
					type rd struct {
						line []byte
						err  error
					}
					rc := make(chan rd, 1)
					go func(w *worker) { l, e := w.res.ReadBytes('\n'); rc <- rd{l, e} }(w)
					to := p.Timeout
					if to <= 0 {
						to = 30 * time.Minute
					}
					var line []byte
					var err error
					timedOut := false
					select {
					case x := <-rc:
						line, err = x.line, x.err
					case <-time.After(to):
						timedOut = true
					}
					if timedOut {
						w.stop()
						w = nil
						r = JobResult{ID: j.ID, Crash: fmt.Sprintf("timeout: no result after %v", to)}
						p.mu.Lock()
						p.Crashes++
						p.mu.Unlock()
						break
					}
					if err != nil || len(line) == 0 {
						logtail := tailFile(w.logf, 6000)
						w.stop()
						w = nil
						r = JobResult{ID: j.ID, Crash: "worker died: " + logtail}
						p.mu.Lock()
						p.Crashes++
						p.mu.Unlock()
						break
					}
					if e := json.Unmarshal(line, &r); e != nil {
						r = JobResult{ID: j.ID, Err: "bad result line: " + e.Error()}
					}
					if r.Stall != "" {
						if rep := curReport; rep != nil {
							fn := r.Stall
							if i := strings.Index(fn, " "); i > 0 {
								fn = fn[:i]
							}
							rep.Finding("blocked-forever/outside-the-scheduler/"+fn, fmt.Sprintf("job %s %s: %s", j.Kind, oneLine(string(j.Args), 300), r.Stall), map[string]any{"job": json.RawMessage(j.Args), "kind": j.Kind})
						}
						r.Err = "stalled world (reported as blocked-forever/outside-the-scheduler)"
					}
					if r.Bye {
						w.stop()
						w = nil
					}
					break
				}
				results <- done{id, j, r}
			}
		}(i)
	}
	idle := make([]int, 0, p.N)
	for i := 0; i < p.N; i++ {
		idle = append(idle, i)
	}
	inflight := 0
	for {
		for len(idle) > 0 && len(queue) > 0 {
			wid := idle[len(idle)-1]
			idle = idle[:len(idle)-1]
			j := queue[len(queue)-1] // LIFO keeps the frontier small for DFS-like expansions
			queue = queue[:len(queue)-1]
			feeds[wid] <- j
			inflight++
		}
		if inflight == 0 {
			break
		}
		d := <-results
		inflight--
		p.Jobs++
		idle = append(idle, d.wid)
		for _, nj := range onResult(d.j, d.r) {
			nj.ID = nextID
			nextID++
			queue = append(queue, nj)
		}
	}
	for _, f := range feeds {
		close(f)
	}
	wg.Wait()
}

// RunAll runs the jobs (in the given order, as far as parallelism allows) and returns the
// results indexed like the jobs.
func (p *Pool) RunAll(jobs []Job) []JobResult {
	out := make([]JobResult, len(jobs))
	rev := make([]Job, len(jobs))
	for i, j := range jobs {
		j.Tag = i
		rev[len(jobs)-1-i] = j
	}
	p.Run(rev, func(j Job, r JobResult) []Job { out[j.Tag] = r; return nil })
	return out
}

// ---------------------------------------------------------------------------------------
// evidence, violations, known findings

type Evidence struct {
	PropertyID  string         `json:"property_id"`
	Tier        string         `json:"tier"`
	Seed        int            `json:"seed"`
	Level       string         `json:"level"`
	Coverage    map[string]any `json:"coverage"`
	Assumptions []string       `json:"assumptions"`
	WallS       float64        `json:"wall_s"`
	Violations  int            `json:"violations"`
}

type KnownFinding struct {
	Property string          `json:"property"`
	Rule     string          `json:"rule"`
	Status   string          `json:"status"` // open | fixed
	What     string          `json:"what"`
	CallSite string          `json:"call_site,omitempty"`
	Witness  json.RawMessage `json:"witness,omitempty"`
	Commit   string          `json:"commit,omitempty"`
}

func loadKnown(prop string) map[string]KnownFinding {
	out := map[string]KnownFinding{}
	b, err := os.ReadFile(filepath.Join(verifDir, "known_findings.json"))
	if err != nil {
		return out
	}
	var all []json.RawMessage
	if err := json.Unmarshal(b, &all); err != nil {
		fmt.Fprintln(os.Stderr, "known_findings.json unreadable:", err)
		os.Exit(2)
	}
	for _, raw := range all {
		var k KnownFinding
		if json.Unmarshal(raw, &k) != nil { // "fixed: ..." strings
			continue
		}
		if k.Property == prop && k.Status == "open" {
			out[k.Rule] = k
		}
	}
	return out
}

// Report collects what one run of one check found.
type Report struct {
	Prop        string
	Tier        string
	Seed        int
	start       time.Time
	known       map[string]KnownFinding
	knownHits   map[string]int
	knownFirst  map[string]string
	violations  []Violation
	violSeen    map[string]bool
	Cov         map[string]any
	Assumptions []string
	engineErrs  []string
	mu          sync.Mutex
}

type Violation struct {
	Rule   string `json:"rule"`
	Detail string `json:"detail"`
	Replay any    `json:"replay"`
}

func NewReport(prop string) *Report {
	r := newReport(prop)
	curReport = r
	return r
}

func newReport(prop string) *Report {
	return &Report{Prop: prop, Tier: envOr("VTIER", "quick"), Seed: envInt("VERIF_SEED", 0), start: time.Now(),
		known: loadKnown(prop), knownHits: map[string]int{}, knownFirst: map[string]string{}, violSeen: map[string]bool{},
		Cov: map[string]any{}}
}

// Finding classifies a discrepancy: a listed known rule -> KNOWN-FINDING, otherwise VIOLATION.
func (r *Report) Finding(rule, detail string, replay any) {
	r.mu.Lock()
	defer r.mu.Unlock()
	if _, ok := r.known[rule]; ok {
		if r.knownHits[rule] == 0 {
			r.knownFirst[rule] = detail
		}
		r.knownHits[rule]++
		return
	}
	key := rule + "|" + detail
	if r.violSeen[key] || len(r.violations) >= 200 {
		if !r.violSeen[key] {
			r.violSeen[key] = true
		}
		return
	}
	r.violSeen[key] = true
	r.violations = append(r.violations, Violation{rule, detail, replay})
}

func (r *Report) EngineError(s string) {
	r.mu.Lock()
	defer r.mu.Unlock()
	if len(r.engineErrs) < 50 {
		r.engineErrs = append(r.engineErrs, s)
	}
}

func (r *Report) NumViolations() int { return len(r.violations) }

// Finish writes the evidence file, prints KNOWN-FINDING / VIOLATION lines and returns the exit code.
func (r *Report) Finish() int {
	// runs against a scratch copy of the repository (seeded changes) must not overwrite the evidence of /repo
	verifDir := verifDir
	if rd := os.Getenv("VERIF_REPO_DIR"); rd != "" && rd != "/repo" {
		verifDir = filepath.Join(buildDir, "alt-out", filepath.Base(rd))
	}
	os.MkdirAll(filepath.Join(verifDir, "evidence"), 0o755)
	os.MkdirAll(filepath.Join(verifDir, "replay"), 0o755)
	if old, _ := filepath.Glob(filepath.Join(verifDir, "replay", r.Prop+"-*.json")); r.Tier != "replay" {
		for _, f := range old {
			os.Remove(f)
		}
	}
	rules := make([]string, 0, len(r.known))
	for k := range r.known {
		rules = append(rules, k)
	}
	sort.Strings(rules)
	var trig, notTrig []string
	for _, k := range rules {
		if r.knownHits[k] > 0 {
			trig = append(trig, fmt.Sprintf("%s (%d)", k, r.knownHits[k]))
			fmt.Printf("KNOWN-FINDING: property=%s %s: %s [%s]\n", r.Prop, k, r.known[k].What, oneLine(r.knownFirst[k], 300))
		} else {
			notTrig = append(notTrig, k)
		}
	}
	r.Cov["known_rules_triggered"] = trig
	r.Cov["known_rules_not_triggered"] = notTrig
	if len(r.engineErrs) > 0 {
		r.Cov["engine_errors"] = r.engineErrs
		r.Cov["exhaustive"] = false
	}
	if r.Tier != "replay" && len(r.violations) > 0 {
		r.confirmViolations()
	}
	code := 0
	var paths []string
	for i, v := range r.violations {
		path := filepath.Join(verifDir, "replay", fmt.Sprintf("%s-%d.json", r.Prop, i))
		b, _ := json.MarshalIndent(map[string]any{"property": r.Prop, "rule": v.Rule, "detail": v.Detail, "replay": v.Replay}, "", " ")
		os.WriteFile(path, b, 0o644)
		if i < 20 {
			fmt.Printf("VIOLATION property=%s replay=%s\n", r.Prop, path)
			fmt.Printf("  rule=%s %s\n", v.Rule, oneLine(v.Detail, 600))
		}
		paths = append(paths, path)
		code = 1
	}
	if len(r.violations) > 0 {
		r.Cov["violation_rules"] = violRules(r.violations)
	}
	ev := Evidence{PropertyID: r.Prop, Tier: r.Tier, Seed: r.Seed, Level: "model_checking", Coverage: r.Cov,
		Assumptions: r.Assumptions, WallS: time.Since(r.start).Seconds(), Violations: len(r.violations)}
	if ev.Assumptions == nil {
		ev.Assumptions = []string{}
	}
	b, _ := json.MarshalIndent(ev, "", " ")
	if err := os.WriteFile(filepath.Join(verifDir, "evidence", r.Prop+".json"), b, 0o644); err != nil {
		fmt.Fprintln(os.Stderr, "cannot write evidence:", err)
		return 2
	}
	if code == 0 && len(r.engineErrs) > 0 {
		for _, e := range r.engineErrs {
			fmt.Fprintln(os.Stderr, "ENGINE:", oneLine(e, 1000))
		}
		if os.Getenv("VERIF_STRICT_ENGINE") != "" {
			return 2
		}
	}
	fmt.Printf("%s %s: violations=%d known=%v wall=%.1fs\n", r.Prop, r.Tier, len(r.violations), trig, ev.WallS)
	return code
}

func violRules(vs []Violation) map[string]int {
	m := map[string]int{}
	for _, v := range vs {
		m[v.Rule]++
	}
	return m
}

func oneLine(s string, n int) string {
	s = strings.ReplaceAll(s, "\n", " | ")
	if len(s) > n {
		s = s[:n] + "..."
	}
	return s
}

// ---------------------------------------------------------------------------------------
// coordinator entry point

// checks is filled by each check's init(): property id -> coordinator function returning exit code.
var checks = map[string]func(t *testing.T) int{}

func TestCoord(t *testing.T) {
	id := os.Getenv("VCHECK")
	if id == "" {
		t.Skip("coordinator mode only (VCHECK unset)")
	}
	if os.Getenv("VTIER") == "replay" {
		code := replayMain(id, os.Getenv("VREPLAY"))
		os.Stdout.Sync()
		os.Exit(code)
	}
	f := checks[id]
	if f == nil {
		fmt.Fprintln(os.Stderr, "no such check:", id)
		os.Exit(2)
	}
	code := f(t)
	os.Stdout.Sync()
	os.Exit(code)
}

// replayJob builds the worker job that re-executes a recorded case (nil: the record is not an executable case, e.g. a
// summary over many executions).
func replayJob(prop string, replay json.RawMessage, all, trace bool) (Job, bool) {
	var rp struct {
		Cfg    json.RawMessage `json:"cfg"`
		Supis  []string        `json:"supis"`
		Ops    json.RawMessage `json:"ops"`
		Oracle string          `json:"oracle"`
		Job    json.RawMessage `json:"job"`
		Kind   string          `json:"kind"`
	}
	if json.Unmarshal(replay, &rp) != nil {
		return Job{}, false
	}
	isSet := func(m json.RawMessage) bool { return len(m) > 0 && string(m) != "null" }
	switch {
	case isSet(rp.Ops):
		orc := rp.Oracle
		if orc == "" {
			orc = prop
		}
		return Job{Kind: "hist", Args: mustJSON(map[string]any{"cfg": rp.Cfg, "supis": rp.Supis, "ops": rp.Ops, "oracle": orc, "gor": true, "all": all})}, true
	case isSet(rp.Job):
		kind := rp.Kind
		if kind == "" {
			kind = replayKinds[prop]
		}
		args := rp.Job
		if kind == "sched" && trace {
			var m map[string]any
			json.Unmarshal(args, &m)
			m["trace"] = true
			args = mustJSON(m)
		}
		return Job{Kind: kind, Args: args}, true
	}
	return Job{}, false
}

// caseDigest: what a re-execution must reproduce - the rules that fired, whether something blocked forever or the process
// died, the canonical state / observation (stack traces and addresses inside details are not compared).
func caseDigest(r JobResult) string {
	var o struct {
		Key      string    `json:"key"`
		Obs      string    `json:"obs"`
		Finds    []Finding `json:"finds"`
		Deadlock []string  `json:"deadlock"`
		Blocked  []string  `json:"blocked"`
		Engine   string    `json:"engine"`
	}
	json.Unmarshal(r.Out, &o)
	var rules []string
	for _, f := range o.Finds {
		rules = append(rules, f.Rule)
	}
	sort.Strings(rules)
	return fmt.Sprint(rules, o.Deadlock != nil, o.Blocked != nil, r.Crash != "", r.Err != "", o.Engine != "", "|", o.Key, "|", o.Obs)
}

// confirmViolations re-executes the first recorded violations twice each, without search: the same case must behave
// identically every time. A case whose two re-executions differ is nondeterminism of the harness - an engine error,
// never a verdict - and is withdrawn.
func (r *Report) confirmViolations() {
	const maxConfirm = 6
	var idx []int
	var jobs []Job
	for i, v := range r.violations {
		if len(idx) >= maxConfirm {
			break
		}
		rb, err := json.Marshal(v.Replay)
		if err != nil {
			continue
		}
		if j, ok := replayJob(r.Prop, rb, false, false); ok && (j.Kind == "hist" || j.Kind == "sched") {
			idx = append(idx, i)
			jobs = append(jobs, j, j)
		}
	}
	if len(jobs) == 0 {
		return
	}
	pool := NewPool(min(len(jobs), 8))
	pool.Timeout = 10 * time.Minute
	res := pool.RunAll(jobs)
	drop := map[int]bool{}
	confirmed := 0
	for k, i := range idx {
		a, b := res[2*k], res[2*k+1]
		same := caseDigest(a) == caseDigest(b)
		if !same {
			drop[i] = true
			r.engineErrs = append(r.engineErrs, fmt.Sprintf("violation %q withdrawn: two re-executions of the same case differ (%s | %s)", r.violations[i].Rule, oneLine(string(a.Out)+a.Err+a.Crash, 300), oneLine(string(b.Out)+b.Err+b.Crash, 300)))
			continue
		}
		confirmed++
	}
	r.Cov["violations_reexecuted_twice_identically"] = confirmed
	if len(drop) > 0 {
		var keep []Violation
		for i, v := range r.violations {
			if !drop[i] {
				keep = append(keep, v)
			}
		}
		r.violations = keep
	}
}

// replayMain re-executes one recorded violation (or any history / job file of the same shape) without search.
func replayMain(prop, path string) int {
	b, err := os.ReadFile(path)
	if err != nil {
		fmt.Fprintln(os.Stderr, err)
		return 2
	}
	var rec struct {
		Rule   string `json:"rule"`
		Detail string `json:"detail"`
		Replay struct {
			Scenario string          `json:"scenario"`
			Cfg      json.RawMessage `json:"cfg"`
			Supis    []string        `json:"supis"`
			Ops      json.RawMessage `json:"ops"`
			Oracle   string          `json:"oracle"`
			Job      json.RawMessage `json:"job"`
			Kind     string          `json:"kind"`
			Case     string          `json:"case"`
		} `json:"replay"`
	}
	if err := json.Unmarshal(b, &rec); err != nil {
		fmt.Fprintln(os.Stderr, err)
		return 2
	}
	pool := NewPool(1)
	rb, _ := json.Marshal(rec.Replay)
	job, ok := replayJob(prop, rb, os.Getenv("VREPLAY_ALL") != "", true)
	if !ok {
		fmt.Fprintln(os.Stderr, "replay file has neither ops nor job")
		return 2
	}
	if job.Kind == "race" {
		// a free-running pass finding: re-run the scenario in the -race build (a sampling side pass: it may need several runs)
		if exe := os.Getenv("VRACE_BIN"); exe != "" {
			if _, err := os.Stat(exe); err == nil {
				pool, _ = racePool(exe, 1)
			}
		}
	}
	r := pool.RunAll([]Job{job})[0]
	fmt.Printf("recorded: rule=%s %s\n", rec.Rule, oneLine(rec.Detail, 300))
	if r.Stall != "" {
		fmt.Printf("* rule=blocked-forever/outside-the-scheduler %s\n", oneLine(r.Stall, 600))
		fmt.Printf("VIOLATION property=%s replay=%s\n", prop, path)
		return 1
	}
	if r.Crash != "" || r.Err != "" {
		fmt.Printf("replay: crash=%q err=%q\n", oneLine(r.Crash, 500), r.Err)
		return 1
	}
	var pretty map[string]any
	json.Unmarshal(r.Out, &pretty)
	if os.Getenv("VREPLAY_RAW") != "" {
		fmt.Println("raw:", oneLine(string(r.Out), 4000))
	}
	finds, _ := pretty["finds"].([]any)
	if tr, _ := pretty["trace"].([]any); len(tr) > 0 {
		for _, l := range tr {
			fmt.Println("  ", l)
		}
	}
	hit := 0
	for _, f := range finds {
		m, _ := f.(map[string]any)
		mark := " "
		if m["rule"] == rec.Rule {
			mark = "*"
			hit++
		}
		fmt.Printf("%s rule=%v %s\n", mark, m["rule"], oneLine(fmt.Sprint(m["detail"]), 500))
	}
	if last, ok := pretty["last"]; ok && os.Getenv("VREPLAY_VERBOSE") != "" {
		lb, _ := json.MarshalIndent(last, "", " ")
		fmt.Println(string(lb))
	}
	if tr, ok := pretty["trace"].([]any); ok && os.Getenv("VREPLAY_VERBOSE") != "" {
		for _, l := range tr {
			fmt.Println("   ", l)
		}
	}
	if ob, ok := pretty["obs"]; ok {
		fmt.Println("outcome:", ob)
	}
	if bl, ok := pretty["blocked"]; ok && bl != nil {
		fmt.Println("blocked forever:", bl, "others:", pretty["holders"])
		hit++
	}
	if dl, ok := pretty["deadlock"]; ok && dl != nil {
		fmt.Println("blocked forever:", dl)
		hit++
	}
	if hit > 0 || len(finds) > 0 {
		fmt.Printf("VIOLATION property=%s replay=%s\n", prop, path)
		return 1
	}
	fmt.Println("replay: no finding reproduced")
	return 0
}

var replayKinds = map[string]string{"C04": "ber", "C05": "ber", "C16": "c16", "C14": "cdrfile", "C15": "cdrfile"}
