//go:build verif && go1.23

package zzverif

import (
	"bytes"
	"encoding/json"
	"fmt"
	"math"
	"reflect"
	"sort"
	"strings"
	"testing"
	"time"

	"github.com/free5gc/chf/cdr/asn"
	"github.com/free5gc/chf/cdr/cdrConvert"
	"github.com/free5gc/chf/cdr/cdrType"
	chf_context "github.com/free5gc/chf/internal/context"
	"verif.local/vs/vos"
)

// C02 (usage recorded exactly once in the right CDR), C03 (every file written is well formed),
// C10 (references unique and stable) ride on the same history exploration.

type fileWrite struct {
	Step int
	Name string
	Data []byte
}

var fileWrites []fileWrite
var curStep int

func init() {
	vos.Hook = func(name string, data []byte) {
		fileWrites = append(fileWrites, fileWrite{curStep, name, append([]byte(nil), data...)})
	}
}

// recView is what the oracle reads from one in-memory record.
type recView struct {
	Sess    string  // ChargingSessionIdentifier
	Sub     string  // SubscriptionIDData
	SubType int64   // SubscriptionIDType
	CID     int64   // ChargingID
	Cons    string  // consumer NF name
	Plmn    []byte  // consumer PLMN identifier
	Cause   int64   // CauseForRecClosing
	Open    []byte  // RecordOpeningTime
	Tags    []int32 // local sequence numbers of all used unit containers in order
	Conts   []contView
	LocalSN int64
	RecSeq  int64
}

type contView struct {
	RG                int64
	Total, Up, Dn, SS int64
	Seq               int64
}

func viewRecord(r *cdrType.CHFRecord) (v recView, err string) {
	if r == nil || r.ChargingFunctionRecord == nil {
		return v, "nil record"
	}
	c := r.ChargingFunctionRecord
	if c.ChargingSessionIdentifier != nil {
		v.Sess = string(c.ChargingSessionIdentifier.Value)
	}
	if c.SubscriberIdentifier != nil {
		v.Sub = string(c.SubscriberIdentifier.SubscriptionIDData)
		v.SubType = int64(c.SubscriberIdentifier.SubscriptionIDType.Value)
	}
	if c.ChargingID != nil {
		v.CID = c.ChargingID.Value
	}
	if c.NFunctionConsumerInformation.NetworkFunctionName != nil {
		v.Cons = string(c.NFunctionConsumerInformation.NetworkFunctionName.Value)
	}
	if p := c.NFunctionConsumerInformation.NetworkFunctionPLMNIdentifier; p != nil {
		v.Plmn = p.Value
	}
	v.Cause = int64(c.CauseForRecClosing.Value)
	v.Open = c.RecordOpeningTime.Value
	if c.LocalRecordSequenceNumber != nil {
		v.LocalSN = c.LocalRecordSequenceNumber.Value
	}
	if c.RecordSequenceNumber != nil {
		v.RecSeq = *c.RecordSequenceNumber
	}
	for _, mu := range c.ListOfMultipleUnitUsage {
		for _, uc := range mu.UsedUnitContainers {
			cv := contView{RG: mu.RatingGroup.Value, Seq: -1}
			if uc.LocalSequenceNumber != nil {
				cv.Seq = uc.LocalSequenceNumber.Value
			}
			if uc.DataTotalVolume != nil {
				cv.Total = uc.DataTotalVolume.Value
			}
			if uc.DataVolumeUplink != nil {
				cv.Up = uc.DataVolumeUplink.Value
			}
			if uc.DataVolumeDownlink != nil {
				cv.Dn = uc.DataVolumeDownlink.Value
			}
			if uc.ServiceSpecificUnits != nil {
				cv.SS = *uc.ServiceSpecificUnits
			}
			v.Conts = append(v.Conts, cv)
			v.Tags = append(v.Tags, int32(cv.Seq))
		}
	}
	return
}

func mncOr93(m string) string {
	if m == "" {
		return "93"
	}
	return m
}

// plmnRef: PLMN-Id of TS 32.298 = octets 2-4 of the Routing Area Identity of TS 29.060 7.7.3:
// MCC digit 2 | MCC digit 1, MNC digit 3 (1111 for a two-digit MNC) | MCC digit 3, MNC digit 2 | MNC digit 1.
func plmnRef(mcc, mnc string) []byte {
	mnc = mncOr93(mnc)
	d := func(s string, i int) byte { return s[i] - '0' }
	m3 := byte(0xf)
	if len(mnc) == 3 {
		m3 = d(mnc, 2)
	}
	return []byte{d(mcc, 1)<<4 | d(mcc, 0), m3<<4 | d(mcc, 2), d(mnc, 1)<<4 | d(mnc, 0)}
}

// expected containers per session reference, from the driver's own log of accepted requests
func expectedUsage(h *HistRun, upto int) map[string][]contView {
	exp := map[string][]contView{}
	creates := 0
	for i := 0; i <= upto && i < len(h.Steps); i++ {
		st := h.Steps[i]
		if st.Resp.Code/100 != 2 {
			continue
		}
		ref := st.Ref
		if st.Op.K == "create" {
			ref = refOf(st.Resp.Location)
			creates++
			if _, ok := exp[ref]; !ok {
				exp[ref] = nil
			}
		}
		if st.Op.K != "create" && st.Op.K != "update" && st.Op.K != "release" {
			continue
		}
		for _, m := range st.Op.MUs {
			for _, c := range m.containers() {
				exp[ref] = append(exp[ref], contView{RG: int64(m.RG), Total: int64(c.Vol), Up: int64(c.Up), Dn: int64(c.Down), SS: int64(c.SSU), Seq: int64(c.Seq)})
			}
		}
	}
	return exp
}

func supiRecords(supi string) ([]*cdrType.CHFRecord, map[string]*cdrType.CHFRecord) {
	ue, ok := chf_context.GetSelf().ChfUeFindBySupi(supi)
	if !ok {
		return nil, nil
	}
	return ue.Records, ue.Cdr
}

func bcdRef(t time.Time) []byte {
	_, off := t.Zone()
	b := func(n int) byte { return byte(n/10)<<4 | byte(n%10) }
	sign := byte('+')
	if off < 0 {
		sign = '-'
		off = -off
	}
	return []byte{b(t.Year() % 100), b(int(t.Month())), b(t.Day()), b(t.Hour()), b(t.Minute()), b(t.Second()), sign, b(off / 3600), b(off % 3600 / 60)}
}

// c02Step: after the last step of the history, every session's record(s) hold exactly what was reported.
func c02Step(w *World, h *HistRun, i int) (fs []Finding) {
	if i != len(h.Steps)-1 {
		return
	}
	exp := expectedUsage(h, i)
	owner := map[int32]string{} // tag -> session reference it was reported on
	for ref, cs := range exp {
		for _, c := range cs {
			owner[int32(c.Seq)] = ref
		}
	}
	last := h.Steps[i]
	supis := map[string]bool{}
	for _, se := range h.Sess {
		supis[se.Supi] = true
	}
	got := map[string][]contView{}
	recsOf := map[string][]recView{}
	for supi := range supis {
		recs, _ := supiRecords(supi)
		for ri, r := range recs {
			v, e := viewRecord(r)
			if e != "" {
				fs = append(fs, Finding{"bad-record", fmt.Sprintf("after step %d %s: record %d of %s: %s", i, last.Op, ri, supi, e)})
				continue
			}
			got[v.Sess] = append(got[v.Sess], v.Conts...)
			recsOf[v.Sess] = append(recsOf[v.Sess], v)
			for _, tg := range v.Tags {
				if o, ok := owner[tg]; ok && o != v.Sess {
					fs = append(fs, Finding{"usage-in-foreign-record", fmt.Sprintf("after step %d %s: container %d reported on session %s is recorded in a record of session %s (subscriber %s)", i, last.Op, tg, o, v.Sess, supi)})
				}
			}
			if "imsi-"+v.Sub != supi {
				fs = append(fs, Finding{"wrong-subscriber-identity", fmt.Sprintf("after step %d: record %d of %s carries subscriber %q", i, ri, supi, v.Sub)})
			}
		}
	}
	for _, se := range h.Sess {
		want := exp[se.Ref]
		have := got[se.Ref]
		if !reflect.DeepEqual(normConts(want), normConts(have)) {
			fs = append(fs, Finding{"usage-not-recorded-exactly-once", fmt.Sprintf("after step %d %s: session %s reported containers %v, its record(s) hold %v", i, last.Op, se.Ref, seqsOf(want), seqsOf(have)) + firstContDiff(want, have)})
		}
		for ri, rv := range recsOf[se.Ref] {
			if want := plmnRef("208", se.MNC); !bytes.Equal(rv.Plmn, want) {
				fs = append(fs, Finding{"wrong-consumer-plmn", fmt.Sprintf("after step %d: the record of session %s carries the consumer PLMN identifier %x; MCC 208 / MNC %s is %x (TS 32.298 PLMN-Id: the octets of TS 29.060 RAI - MCC2|MCC1, MNC3|MCC3, MNC2|MNC1)", i, se.Ref, rv.Plmn, mncOr93(se.MNC), want)})
			}
			if rv.CID != int64(se.CID) || rv.Cons != se.Cons || rv.SubType != int64(cdrType.SubscriptionIDTypePresentENDUSERIMSI) {
				fs = append(fs, Finding{"identity-fields", fmt.Sprintf("after step %d: record %d of session %s has charging id %d (created with %d), consumer %q (created with %q), subscription type %d", i, ri, se.Ref, rv.CID, se.CID, rv.Cons, se.Cons, rv.SubType)})
			}
			created := h.Steps[se.CreatedAt]
			_ = created
			if want := bcdRef(w.Start); ri == 0 && string(rv.Open) != string(want) {
				fs = append(fs, Finding{"opening-timestamp", fmt.Sprintf("record of session %s: opening time % x, creation instant encodes as % x", se.Ref, rv.Open, want)})
			}
		}
		if len(recsOf[se.Ref]) == 0 {
			fs = append(fs, Finding{"no-record-for-session", fmt.Sprintf("after step %d %s: session %s has no charging record", i, last.Op, se.Ref)})
		}
	}
	// cause for record closing of the record(s) touched by this step
	if last.Resp.Code/100 == 2 && (last.Op.K == "release" || last.Op.K == "update") {
		rs := recsOf[last.Ref]
		if len(rs) > 0 {
			cur := rs[len(rs)-1]
			switch {
			case last.Op.K == "release" && cur.Cause != 0:
				fs = append(fs, Finding{"cause-for-closing", fmt.Sprintf("after release %s: last record of session %s has causeForRecClosing %d, expected 0 (normalRelease)", last.Op, last.Ref, cur.Cause)})
			case last.Op.K == "update" && partialExpected(last.Op) && cur.Cause != 1:
				fs = append(fs, Finding{"cause-for-closing", fmt.Sprintf("after partial closure %s: record of session %s has causeForRecClosing %d, expected 1 (partialRecord)", last.Op, last.Ref, cur.Cause)})
			}
		}
	}
	// the file written by this step decodes to the in-memory records (unless a record exceeds the 65535-octet
	// limit: such a file cannot be well formed - that defect is C03's and is reported there)
	if len(oversizeRecords(h)) == 0 {
		fs = append(fs, c02Files(w, h, i)...)
	}
	return
}

// partialExpected: an update whose request-level triggers ask for a partial record (online container + non-FINAL trigger)
func partialExpected(op Op) bool {
	if len(op.Trig) == 0 || hasTrig(op, "FINAL") {
		return false
	}
	for _, m := range op.MUs {
		for _, c := range m.Conts {
			if !c.Offline {
				return true
			}
		}
	}
	return false
}

func normConts(c []contView) []contView {
	if len(c) == 0 {
		return nil
	}
	return c
}

func seqsOf(c []contView) string {
	var s []string
	for i, x := range c {
		if i >= 12 {
			s = append(s, fmt.Sprintf("...(%d)", len(c)))
			break
		}
		s = append(s, fmt.Sprint(x.Seq))
	}
	return "[" + strings.Join(s, " ") + "]"
}

func firstContDiff(a, b []contView) string {
	for i := 0; i < len(a) && i < len(b); i++ {
		if a[i] != b[i] {
			return fmt.Sprintf("; first difference at position %d: reported %+v recorded %+v", i, a[i], b[i])
		}
	}
	return ""
}

// decodeFileRecords parses a written file with the independent reader and the real BER decoder.
func decodeFileRecords(data []byte) ([]recView, string) {
	f, err := refReadFile(data)
	if err != nil {
		return nil, "TS 32.297 reader: " + err.Error()
	}
	var out []recView
	for ri, r := range f.CdrList {
		if err := walkTLV(r.CdrByte); err != nil {
			return nil, fmt.Sprintf("record %d payload is not one well-formed BER element: %v", ri, err)
		}
		var rec cdrType.CHFRecord
		var derr error
		func() {
			defer func() {
				if p := recover(); p != nil {
					derr = fmt.Errorf("panic: %v", p)
				}
			}()
			derr = asn.UnmarshalWithParams(r.CdrByte, &rec, "explicit,choice")
		}()
		if derr != nil {
			return nil, fmt.Sprintf("record %d does not decode as CHFRecord: %v", ri, derr)
		}
		v, e := viewRecord(&rec)
		if e != "" {
			return nil, fmt.Sprintf("record %d: %s", ri, e)
		}
		out = append(out, v)
	}
	return out, ""
}

func c02Files(w *World, h *HistRun, i int) (fs []Finding) {
	last := h.Steps[i]
	var lastWrite *fileWrite
	for k := range fileWrites {
		if fileWrites[k].Step == i {
			lastWrite = &fileWrites[k]
		}
	}
	if lastWrite == nil {
		return
	}
	views, e := decodeFileRecords(lastWrite.Data)
	if e != "" {
		return []Finding{{"file-undecodable", fmt.Sprintf("file %s written by step %d %s: %s", lastWrite.Name, i, last.Op, e)}}
	}
	supi := strings.TrimSuffix(strings.TrimPrefix(lastWrite.Name, "/tmp/"), ".cdr")
	recs, _ := supiRecords(supi)
	var mem []recView
	if last.Op.K == "release" {
		// a release writes the (last) record of the released session only
		for _, r := range recs {
			if v, _ := viewRecord(r); v.Sess == last.Ref {
				mem = []recView{v}
			}
		}
	} else {
		for _, r := range recs {
			v, _ := viewRecord(r)
			mem = append(mem, v)
		}
	}
	if !reflect.DeepEqual(views, mem) {
		fs = append(fs, Finding{"file-differs-from-records", fmt.Sprintf("file %s written by step %d %s decodes to %d record(s) %s; the subscriber's records are %s", lastWrite.Name, i, last.Op, len(views), viewSummary(views), viewSummary(mem))})
	}
	return
}

func viewSummary(vs []recView) string {
	var s []string
	for _, v := range vs {
		s = append(s, fmt.Sprintf("{sess=%s cause=%d tags=%d}", v.Sess, v.Cause, len(v.Tags)))
	}
	return strings.Join(s, " ")
}

// recordSizes returns the BER size of every in-memory record of the subscribers of the history.
func oversizeRecords(h *HistRun) (out []string) {
	seen := map[string]bool{}
	for _, se := range h.Sess {
		if seen[se.Supi] {
			continue
		}
		seen[se.Supi] = true
		recs, _ := supiRecords(se.Supi)
		for ri, r := range recs {
			b, err := asn.BerMarshalWithParams(&r, "explicit,choice")
			if err == nil && len(b) > 65535 {
				out = append(out, fmt.Sprintf("record %d of %s encodes to %d octets", ri, se.Supi, len(b)))
			}
		}
	}
	return
}

// c03Step: every write of the last step is a well-formed TS 32.297 file of complete BER records.
func c03Step(w *World, h *HistRun, i int) (fs []Finding) {
	if i != len(h.Steps)-1 {
		return
	}
	last := h.Steps[i]
	if over := oversizeRecords(h); len(over) > 0 {
		// a record beyond the 65535-octet limit exists: every file containing it is necessarily malformed
		// (16-bit length field). Reported once, under the path that produced it; such states are not expanded.
		cls := c03Class(last.Op)
		if cls == "single-request-over-64k" && strings.HasPrefix(over[0], "record 0 ") {
			// the request was not moved to a fresh record: the record it was appended to outgrew the limit (not the known
			// "one request is never split" defect)
			cls = "update"
		}
		return []Finding{{"oversize-record/" + cls, fmt.Sprintf("after step %d %s: %s (no record may exceed 65535 octets)", i, opBrief(last.Op), strings.Join(over, "; "))}}
	}
	for _, fw := range fileWrites {
		if fw.Step != i {
			continue
		}
		f, err := refReadFile(fw.Data)
		if err != nil {
			fs = append(fs, Finding{"file-malformed/" + c03Class(last.Op), fmt.Sprintf("file %s (%d octets) written by step %d %s: %v", fw.Name, len(fw.Data), i, opBrief(last.Op), err)})
			continue
		}
		for ri, r := range f.CdrList {
			if err := walkTLV(r.CdrByte); err != nil {
				fs = append(fs, Finding{"record-not-ber/" + c03Class(last.Op), fmt.Sprintf("file %s written by step %d %s: record %d (%d octets): %v", fw.Name, i, opBrief(last.Op), ri, len(r.CdrByte), err)})
				continue
			}
			var rec cdrType.CHFRecord
			if err := asn.UnmarshalWithParams(r.CdrByte, &rec, "explicit,choice"); err != nil || rec.ChargingFunctionRecord == nil {
				fs = append(fs, Finding{"record-not-chf-record", fmt.Sprintf("file %s written by step %d %s: record %d does not decode as a CHF record: %v", fw.Name, i, opBrief(last.Op), ri, err)})
			}
		}
	}
	return
}

func opBrief(op Op) string {
	n := 0
	for _, m := range op.MUs {
		n += len(m.containers())
	}
	return fmt.Sprintf("%s(s=%d, %d containers, trig=%v)", op.K, op.S, n, op.Trig)
}

// c03Class: which path added the usage (the size guard exists on one of them only)
func c03Class(op Op) string {
	n := 0
	for _, m := range op.MUs {
		n += len(m.containers())
	}
	switch {
	case op.K == "update" && n >= 3400:
		// (a request that - together with the fixed part of a record - does not fit one record: it is moved to a fresh
		// record as a whole, never split)
		return "single-request-over-64k"
	case op.K == "update":
		return "update"
	}
	return op.K
}

type cdrInfo struct {
	Sess    []*Sess        `json:"sess"`
	Recs    map[string]int `json:"recs"`   // supi -> number of records
	Counts  map[string]int `json:"counts"` // session ref -> containers recorded
	NextTag int32          `json:"nextTag"`
	Tainted bool           `json:"tainted"` // an oversize record exists (known finding): successors are not explored
	Sizes   []int          `json:"sizes"`   // BER size of every record
}

func cdrState(abstractCounts bool) func(w *World, h *HistRun) (string, any) {
	return func(w *World, h *HistRun) (string, any) {
		info := cdrInfo{Sess: h.Sess, Recs: map[string]int{}, Counts: map[string]int{}}
		var parts []string
		supis := map[string]bool{}
		for _, se := range h.Sess {
			supis[se.Supi] = true
		}
		ord := map[string]int{}
		for i, se := range h.Sess {
			ord[se.Ref] = i
		}
		for _, supi := range sortedKeys(supis) {
			recs, cdrs := supiRecords(supi)
			info.Recs[supi] = len(recs)
			var rs []string
			for _, r := range recs {
				v, _ := viewRecord(r)
				n := len(v.Tags)
				info.Counts[v.Sess] += n
				if abstractCounts {
					n = min(n, 1)
				}
				rs = append(rs, fmt.Sprintf("s%d:c%d:n%d", ord[v.Sess], v.Cause, n))
			}
			var cs []string
			for ref, r := range cdrs {
				idx := -1
				for k, rr := range recs {
					if rr == r {
						idx = k
					}
				}
				cs = append(cs, fmt.Sprintf("s%d->r%d", ord[ref], idx))
			}
			sort.Strings(cs)
			parts = append(parts, supi+"["+strings.Join(rs, ",")+"]{"+strings.Join(cs, ",")+"}")
		}
		var lv []string
		for i, se := range h.Sess {
			if se.Live {
				lv = append(lv, fmt.Sprint(i))
			}
		}
		for _, st := range h.Steps {
			for _, m := range st.Op.MUs {
				for _, c := range m.containers() {
					if c.Seq >= info.NextTag {
						info.NextTag = c.Seq + 1
					}
				}
			}
		}
		info.Tainted = len(oversizeRecords(h)) > 0
		for _, supi := range sortedKeys(supis) {
			recs, _ := supiRecords(supi)
			for _, r := range recs {
				b, _ := asn.BerMarshalWithParams(&r, "explicit,choice")
				info.Sizes = append(info.Sizes, len(b))
			}
		}
		return strings.Join(parts, " ") + " live=" + strings.Join(lv, ","), info
	}
}

func init() {
	histOracles["C02"] = HistOracle{Step: c02Step, State: cdrState(true)}
	histOracles["C02x"] = HistOracle{Step: c02Step, State: cdrState(false)}
	histOracles["C03"] = HistOracle{Step: c03Step, State: cdrState(false)}
	checks["C02"] = func(t *testing.T) int { return cdrCheck(t, "C02") }
	checks["C03"] = func(t *testing.T) int { return cdrCheck(t, "C03") }
	jobHandlers["tstamp"] = tstampJob
}

type cdrScenario struct {
	name    string
	depth   int
	twoUE   bool
	maxSess int
	bulks   []int // container counts of bulk updates
	small   bool  // small semantic alphabet (C02)
	prefix  []Op
}

func (sc cdrScenario) alphabet(raw json.RawMessage, depth int) (ops []Op) {
	var in cdrInfo
	json.Unmarshal(raw, &in)
	if in.Tainted {
		return nil
	}
	tag := in.NextTag
	if tag < 1000 {
		tag = 1000
	}
	next := func(n int) int32 { t := tag; tag += int32(n); return t }
	live := map[int]int{}
	for _, s := range in.Sess {
		if s.Live {
			live[s.U]++
		}
	}
	nUE := 1
	if sc.twoUE {
		nUE = 2
	}
	cont := func(vol int32, off bool) Cont {
		return Cont{Vol: vol, Up: vol / 3, Down: vol - vol/3, SSU: vol % 7, Seq: 0, Offline: off}
	}
	for u := 0; u < nUE; u++ {
		if live[u] < sc.maxSess {
			c := mkCreate(u, "smf"+fmt.Sprint(live[u]+1))
			c.CID = int32(100*(u+1) + live[u] + depth*10)
			c.V6 = live[u] == 1 // the second session of a subscriber attaches through a consumer known by IPv6 address and FQDN
			ops = append(ops, c)
			if sc.small {
				c2 := c
				cc := cont(11, true)
				cc.Seq = next(1)
				c2.MUs = []MU{{RG: 1, Req: 10, Conts: []Cont{cc}}}
				ops = append(ops, c2)
				if u == 0 && depth >= 1 {
					// a one-time event of the subscriber carrying usage of its own (its record is closed at once)
					ev := c
					ev.OTE, ev.Cons = "IEC", "smf-ev"
					ce := cont(13, true)
					ce.Seq = next(1)
					ev.MUs = []MU{{RG: 1, Req: -1, Conts: []Cont{ce}}}
					ops = append(ops, ev)
				}
			}
		}
	}
	for si, s := range in.Sess {
		if !s.Live {
			continue
		}
		vol := int32(10 + si + depth)
		if sc.small {
			c1 := cont(vol, true)
			c1.Seq = next(1)
			ops = append(ops, Op{K: "update", S: si, MUs: []MU{{RG: 1, Req: 10, Conts: []Cont{c1}}}, Seq: int32(depth)})
			a, b, c := cont(vol+1, false), cont(vol+2, false), cont(vol+3, true)
			a.Seq, b.Seq, c.Seq = next(1), next(1), next(1)
			ops = append(ops, Op{K: "update", S: si, MUs: []MU{{RG: 1, Req: 10, Conts: []Cont{a, b}}, {RG: 2, Req: 10, Conts: []Cont{c}}}, Trig: []string{"VOLIMM"}, Seq: int32(depth)})
			r := cont(vol+4, false)
			r.Seq = next(1)
			ops = append(ops, Op{K: "release", S: si, MUs: []MU{{RG: 1, Req: -1, Conts: []Cont{r}}}, Trig: []string{"FINAL"}, Seq: int32(depth)})
			// containers of unusual shape (total volume absent or different from uplink + downlink, units only, empty,
			// maximal), online and offline, in an update and in a release
			for _, off := range []bool{false, true} {
				var shapes []Cont
				for _, c := range []Cont{{Vol: 0, Up: 700, Down: 300}, {Vol: 5}, {SSU: 9}, {}, {Vol: 50, Up: 60, Down: 70, SSU: 1}, {Vol: math.MaxInt32, Up: 1, Down: 1}} {
					c.Seq, c.Offline = next(1), off
					shapes = append(shapes, c)
				}
				ops = append(ops, Op{K: "update", S: si, MUs: []MU{{RG: 1, Req: 10, Conts: shapes}}, Seq: int32(depth)})
				var shapes2 []Cont
				for _, c := range shapes {
					c.Seq = next(1)
					shapes2 = append(shapes2, c)
				}
				ops = append(ops, Op{K: "release", S: si, MUs: []MU{{RG: 1, Req: -1, Conts: shapes2}}, Trig: []string{"FINAL"}, Seq: int32(depth)})
			}
		}
		for _, n := range sc.bulks {
			c1 := cont(vol, true)
			c1.Seq = next(n)
			ops = append(ops, Op{K: "update", S: si, MUs: []MU{{RG: 1, Req: 10, Conts: []Cont{c1}, Bulk: n}}, Seq: int32(depth)})
		}
		if len(sc.bulks) > 0 {
			n := sc.bulks[0]
			c1 := cont(vol, true)
			c1.Seq = next(n)
			ops = append(ops, Op{K: "release", S: si, MUs: []MU{{RG: 1, Req: -1, Conts: []Cont{c1}, Bulk: n}}, Trig: []string{"FINAL"}, Seq: int32(depth)})
			c2 := cont(vol, true)
			c2.Seq = next(1)
			ops = append(ops, Op{K: "update", S: si, MUs: []MU{{RG: 1, Req: 10, Conts: []Cont{c2}}}, Seq: int32(depth)})
		}
	}
	return
}

func cdrScenarios(prop, tier string) []cdrScenario {
	th := tier == "thorough"
	d := func(q, t int) int {
		if th {
			return t
		}
		return q
	}
	if prop == "C02" {
		return []cdrScenario{
			{name: "2ue-2sess-small", depth: d(4, 7), twoUE: true, maxSess: 2, small: true},
			{name: "1ue-1sess-split", depth: d(5, 8), maxSess: 1, bulks: []int{900}, prefix: []Op{mkCreate(0, "smf1")}},
			{name: "1ue-2sess-split", depth: d(4, 7), maxSess: 2, bulks: []int{1300}},
		}
	}
	return []cdrScenario{
		{name: "1ue-1sess-bulk900-1300", depth: d(5, 6), maxSess: 1, bulks: []int{900, 1300}, prefix: []Op{mkCreate(0, "smf1")}},
		{name: "1ue-1sess-bulk2000-4000", depth: d(3, 4), maxSess: 1, bulks: []int{2000, 4000}, prefix: []Op{mkCreate(0, "smf1")}},
		{name: "1ue-2sess-bulk1300", depth: d(4, 5), maxSess: 2, bulks: []int{1300}},
		// an older session that fills its record over several requests next to a younger one of the same subscriber
		{name: "1ue-2sess-bulk2000", depth: d(4, 5), maxSess: 2, bulks: []int{2000}},
		{name: "2ue-small", depth: d(3, 5), twoUE: true, maxSess: 2, small: true},
	}
}

var bigAccounts = []Account{{supiA, 1, "100000000", "1"}, {supiA, 2, "100000000", "1"}, {supiB, 1, "100000000", "1"}, {supiB, 2, "100000000", "1"}}

func cdrCheck(t *testing.T, prop string) int {
	rep := NewReport(prop)
	pool := NewPool(0)
	total := BFSStats{Outcomes: map[string]int{}}
	var perScen []map[string]any
	exhaustive := true
	for _, sc := range cdrScenarios(prop, rep.Tier) {
		st := BFSStats{}
		orc := prop
		if prop == "C02" && !sc.small {
			orc = "C02x"
		}
		sp := BFSSpec{Name: sc.name, Check: prop, Oracle: orc, Cfg: WorldCfg{Accounts: bigAccounts}, Supis: []string{supiA, supiB},
			Prefix: sc.prefix, MaxDepth: sc.depth, Alphabet: sc.alphabet}
		RunBFS(pool, sp, rep, &st)
		total.States += st.States
		total.Transitions += st.Transitions
		for k, v := range st.Outcomes {
			total.Outcomes[k] += v
		}
		total.Samples = append(total.Samples, st.Samples...)
		if st.CapHit || st.EngineErrs > 0 {
			exhaustive = false
		}
		perScen = append(perScen, map[string]any{"scenario": sc.name, "depth_bound": sc.depth, "depth_completed": st.MaxDepthDone, "states": st.States, "transitions": st.Transitions, "per_level": st.PerLevel})
	}
	sweep, sweepPartial := map[int]bool{}, map[int]bool{}
	if prop == "C03" {
		// boundary sweep: every record size in a window below (and just above) the 65535-octet limit
		bulkOp := func(n int) Op {
			return Op{K: "update", S: 0, MUs: []MU{{RG: 1, Req: 10, Conts: []Cont{{Vol: 10, Up: 3, Down: 7, SSU: 3, Seq: 100000, Offline: true}}, Bulk: n}}}
		}
		sizeOf := func(n int) int {
			sz := -1
			sp := BFSSpec{Name: "calibrate", Check: prop, Oracle: "C03", Cfg: WorldCfg{Accounts: bigAccounts}, Supis: []string{supiA}, Prefix: []Op{mkCreate(0, "smf1")}, MaxDepth: 1,
				Alphabet: func(json.RawMessage, int) []Op { return []Op{bulkOp(n)} },
				OnState: func(_ []Op, ib json.RawMessage) {
					var in cdrInfo
					json.Unmarshal(ib, &in)
					for _, x := range in.Sizes {
						sz = max(sz, x)
					}
				}}
			st := BFSStats{}
			RunBFS(pool, sp, rep, &st)
			total.Transitions += st.Transitions
			return sz
		}
		s1, s2 := sizeOf(3000), sizeOf(3400)
		n0 := 0
		if s1 > 0 && s2 > s1 {
			per := float64(s2-s1) / 400
			n0 = 3000 + int((65535-130-float64(s1))/per)
		}
		// two starting records: ~130 octets below the limit (reached by 4-6 further containers) and ~45 octets below it
		// (reached by 1-2 containers: a small request next to an almost full record)
		for pi, nPre := range []int{n0, n0 + 5} {
			if n0 <= 0 {
				break
			}
			mMin, mMax := 1, 6
			if pi == 1 {
				mMax = 3
			}
			sp := BFSSpec{Name: fmt.Sprintf("size-sweep-%d", pi), Check: prop, Oracle: "C03", Cfg: WorldCfg{Accounts: bigAccounts}, Supis: []string{supiA},
				Prefix: []Op{mkCreate(0, "smf1"), bulkOp(nPre)}, MaxDepth: 1,
				Alphabet: func(json.RawMessage, int) (ops []Op) {
					grow := []int32{10, 1000, 100000, 100000000} // 1..4 content octets
					for m := mMin; m <= mMax; m++ {
						for fat := 0; fat <= 15*m && fat <= 32; fat++ {
							f := fat
							lv := func() int32 { x := grow[min(f, 3)]; f -= min(f, 3); return x }
							var cs []Cont
							for k := 0; k < m; k++ {
								c := Cont{Seq: int32(200 + k), Offline: true}
								c.Vol, c.Up, c.Down, c.SSU = lv(), lv(), lv(), lv()
								if f > 0 {
									c.Seq = lv()
								}
								cs = append(cs, c)
							}
							ops = append(ops, Op{K: "update", S: 0, MUs: []MU{{RG: 1, Req: 10, Conts: cs}}})
							if m <= 6 {
								// the same usage reported together with a dozen triggers (whatever else of a request goes into
								// the record must be inside the size limit as well)
								ops = append(ops, Op{K: "update", S: 0, MUs: []MU{{RG: 1, Req: 10, Conts: cs}},
									Trig: []string{"QHT", "QT", "QHT", "QT", "QHT", "QT", "QHT", "QT", "QHT", "QT", "QHT", "QT"}})
								// ... and as online usage with a volume-limit trigger: the record is closed as a partial record
								// and reopened (closing and reopening add members of their own to a record that is almost full)
								on := append([]Cont(nil), cs...)
								for i := range on {
									on[i].Offline = false
								}
								ops = append(ops, Op{K: "update", S: 0, MUs: []MU{{RG: 1, Req: 10, Conts: on}}, Trig: []string{"VOLIMM"}})
							}
						}
					}
					return
				},
				OnState: func(ops []Op, ib json.RawMessage) {
					var in cdrInfo
					json.Unmarshal(ib, &in)
					partial := len(ops) > 0 && hasTrig(ops[len(ops)-1], "VOLIMM")
					for _, x := range in.Sizes {
						if x > 65535-200 {
							sweep[x] = true
							if partial {
								sweepPartial[x] = true
							}
						}
					}
				}}
			st := BFSStats{}
			RunBFS(pool, sp, rep, &st)
			total.States += st.States
			total.Transitions += st.Transitions
			if st.EngineErrs > 0 {
				exhaustive = false
			}
		}
		// dense sweep: a small request (one container, less than 128 octets of usage) arriving at a record whose size takes
		// every value in the last 80 octets below the limit - the starting record is tuned octet by octet with one "fat"
		// container - reported offline, offline with triggers, and online with a volume-limit trigger (partial record:
		// the record is closed and reopened, which adds members after the size has been checked)
		fatCont := func(f int, seq int32, offline bool) Cont {
			grow := []int32{10, 1000, 100000, 100000000}
			lv := func() int32 { x := grow[min(f, 3)]; f -= min(f, 3); return x }
			c := Cont{Seq: seq, Offline: offline}
			c.Vol, c.Up, c.Down, c.SSU = lv(), lv(), lv(), lv()
			return c
		}
		if n0 > 0 {
			var jobsN, jobsF []int
			for dn := 2; dn <= 5; dn++ {
				for f := 0; f <= 12; f += 1 {
					jobsN, jobsF = append(jobsN, n0+dn), append(jobsF, f)
				}
			}
			for k := range jobsN {
				pre := bulkOp(jobsN[k])
				pre.MUs = append(pre.MUs, MU{RG: 1, Req: 10, Conts: []Cont{fatCont(jobsF[k], 300000, true)}})
				sp := BFSSpec{Name: fmt.Sprintf("size-sweep-dense-%d-%d", jobsN[k]-n0, jobsF[k]), Check: prop, Oracle: "C03", Cfg: WorldCfg{Accounts: bigAccounts}, Supis: []string{supiA},
					Prefix: []Op{mkCreate(0, "smf1"), pre}, MaxDepth: 1,
					Alphabet: func(json.RawMessage, int) (ops []Op) {
						for f := 0; f <= 12; f += 4 {
							ops = append(ops, Op{K: "update", S: 0, MUs: []MU{{RG: 1, Req: 10, Conts: []Cont{fatCont(f, 400000, false)}}}, Trig: []string{"VOLIMM"}})
							ops = append(ops, Op{K: "update", S: 0, MUs: []MU{{RG: 1, Req: 10, Conts: []Cont{fatCont(f, 400000, true)}}}})
						}
						return
					},
					OnState: func(ops []Op, ib json.RawMessage) {
						var in cdrInfo
						json.Unmarshal(ib, &in)
						partial := len(ops) > 0 && hasTrig(ops[len(ops)-1], "VOLIMM")
						for _, x := range in.Sizes {
							if x > 65535-200 {
								sweep[x] = true
								if partial {
									sweepPartial[x] = true
								}
							}
						}
					}}
				st := BFSStats{}
				RunBFS(pool, sp, rep, &st)
				total.States += st.States
				total.Transitions += st.Transitions
				if st.EngineErrs > 0 {
					exhaustive = false
				}
			}
			// the first usage report of a session carrying almost a whole record's worth of usage (the record has no usage
			// list yet: adding one grows the length octets of the enclosing elements)
			sp := BFSSpec{Name: "size-sweep-first-report", Check: prop, Oracle: "C03", Cfg: WorldCfg{Accounts: bigAccounts}, Supis: []string{supiA},
				Prefix: []Op{mkCreate(0, "smf1")}, MaxDepth: 1,
				Alphabet: func(json.RawMessage, int) (ops []Op) {
					for dn := 3; dn <= 9; dn++ {
						for f := 0; f <= 12; f++ {
							op := bulkOp(n0 + dn)
							op.MUs = append(op.MUs, MU{RG: 1, Req: 10, Conts: []Cont{fatCont(f, 300000, true)}})
							ops = append(ops, op)
						}
					}
					return
				}}
			st := BFSStats{}
			RunBFS(pool, sp, rep, &st)
			total.States += st.States
			total.Transitions += st.Transitions
			if st.EngineErrs > 0 {
				exhaustive = false
			}
		}
		maxReached := 0
		for x := range sweep {
			if x <= 65535 {
				maxReached = max(maxReached, x)
			}
		}
		// the update path's size guard compares cdr + request encodings, which over-estimates the merged record by the
		// request's own SEQUENCE OF header; sizes above maxReached are not producible through it
		lo, hi, missing := 65535-60, maxReached, []int{}
		for x := lo; x <= hi; x++ {
			if !sweep[x] {
				missing = append(missing, x)
			}
		}
		var partialTop []int
		for x := range sweepPartial {
			if x >= 65535-12 {
				partialTop = append(partialTop, x)
			}
		}
		sort.Ints(partialTop)
		rep.Cov["size_sweep_partial_records"] = map[string]any{"sizes_reached_by_records_closed_and_reopened_as_partial": len(sweepPartial), "of_them_within_12_octets_of_the_limit": partialTop}
		rep.Cov["size_sweep"] = map[string]any{"bulk_containers": n0, "record_sizes_reached_above_65335": len(sweep), "window": []int{lo, hi}, "largest_record_reached": maxReached, "sizes_in_window_not_reached": missing}
		if len(missing) > 0 {
			exhaustive = false
		}
	}
	tsN := 0
	if prop == "C02" {
		// timestamp sub-claim: all quarter-hour offsets (and a few odd ones) x boundary instants
		rs := pool.RunAll([]Job{{Kind: "tstamp", Args: mustJSON(map[string]any{})}})
		var out struct {
			N     int       `json:"n"`
			Finds []Finding `json:"finds"`
		}
		if rs[0].Err != "" || rs[0].Crash != "" {
			rep.EngineError(rs[0].Err + rs[0].Crash)
		}
		json.Unmarshal(rs[0].Out, &out)
		tsN = out.N
		for _, f := range out.Finds {
			rep.Finding(f.Rule, f.Detail, map[string]any{"case": f.Detail})
		}
	}
	if prop == "C03" {
		per, sexecs, sex := c03Schedules(rep, pool)
		if !sex {
			exhaustive = false
		}
		rep.Cov["concurrent_requests"] = per
		rep.Cov["schedules"] = sexecs
		total.Transitions += sexecs
	}
	if len(total.Samples) > 6 {
		total.Samples = total.Samples[:6]
	}
	rep.Cov["states"] = total.States
	rep.Cov["transitions"] = total.Transitions
	rep.Cov["traces_validated_against_impl"] = total.Transitions
	rep.Cov["samples"] = total.Samples
	rep.Cov["exhaustive"] = exhaustive
	rep.Cov["scenarios"] = perScen
	rep.Cov["distinct_outcomes"] = total.Outcomes
	rep.Cov["timestamp_cases"] = tsN
	rep.Cov["method"] = "breadth-first search over request histories on the real CHF (replay from a fresh world per transition); after every transition the subscriber's in-memory records and every file written through the (modelled) file table are compared with the driver's log of reported containers / parsed by an independent TS 32.297 reader, a BER walker and the real decoder"
	rep.Assumptions = append(rep.Assumptions, "every usage container carries a unique local sequence number so that its placement is observable", "the CDR directory is an in-memory file table (cdr/cdrFile's os import is redirected)")
	return rep.Finish()
}

// tstampJob: TimeStampToCdr against an independent BCD encoder, over zones and instants.
func tstampJob(t *testing.T, raw json.RawMessage) (any, error) {
	var finds []Finding
	rules := map[string]int{}
	n := 0
	var offs []int
	for q := -12 * 4; q <= 14*4; q++ {
		offs = append(offs, q*900)
	}
	offs = append(offs, 60, -60, 5*3600+45*60, -(9*3600 + 30*60), 3600+1, -3599, 86340, -86340)
	instants := []time.Time{
		time.Date(2000, 1, 1, 0, 0, 0, 0, time.UTC), time.Date(1999, 12, 31, 23, 59, 59, 0, time.UTC), time.Date(2024, 2, 29, 12, 0, 0, 0, time.UTC),
		time.Date(2024, 3, 1, 0, 0, 0, 0, time.UTC), time.Date(2023, 10, 9, 9, 9, 9, 0, time.UTC), time.Date(2023, 10, 10, 10, 10, 10, 0, time.UTC),
		time.Date(2099, 12, 31, 23, 59, 59, 0, time.UTC), time.Date(2100, 1, 1, 0, 0, 0, 0, time.UTC), time.Date(2026, 11, 30, 19, 49, 59, 0, time.UTC),
		time.Date(2026, 6, 15, 20, 50, 0, 0, time.UTC), time.Date(2031, 1, 31, 0, 30, 0, 0, time.UTC), time.Date(2020, 9, 19, 23, 0, 1, 0, time.UTC),
	}
	for _, off := range offs {
		loc := time.FixedZone("z", off)
		for _, ins := range instants {
			tt := ins.In(loc)
			n++
			var got []byte
			pan := ""
			func() {
				defer func() {
					if r := recover(); r != nil {
						pan = fmt.Sprint(r)
					}
				}()
				got = cdrConvert.TimeStampToCdr(&tt).Value
			}()
			want := bcdRef(tt)
			if pan != "" || string(got) != string(want) {
				cls := "positive-whole-hour"
				switch {
				case off < 0 && off%3600 != 0:
					cls = "negative-non-hour-aligned"
				case off < 0:
					cls = "negative"
				case off%3600 != 0:
					cls = "non-hour-aligned"
				}
				rule := "timestamp-bcd/" + cls
				rules[rule]++
				if rules[rule] <= 2 {
					finds = append(finds, Finding{rule, fmt.Sprintf("TimeStampToCdr(%s) = % x, TS 32.298 BCD YYMMDDhhmmssShhmm is % x %s", tt.Format(time.RFC3339), got, want, pan)})
				}
			}
		}
	}
	return map[string]any{"n": n, "finds": finds}, nil
}
