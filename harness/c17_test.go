//go:build verif && go1.23

package zzverif

import (
	"bytes"
	"encoding/json"
	"encoding/xml"
	"fmt"
	"math"
	"reflect"
	"strings"
	"testing"
	"time"

	"github.com/fiorix/go-diameter/diam"
	"github.com/fiorix/go-diameter/diam/datatype"
	"github.com/fiorix/go-diameter/diam/dict"

	charging_code "github.com/free5gc/chf/ccs_diameter/code"
	cd "github.com/free5gc/chf/ccs_diameter/datatype"
	charging_dict "github.com/free5gc/chf/ccs_diameter/dict"
)

// C17: Diameter messages carry every field intact; the dictionaries cover the message structures.

func loadDicts() error {
	dict.ResetDefault()
	// the order service.Start uses: rating function first, then account balance
	if err := dict.Default.Load(bytes.NewReader([]byte(charging_dict.RateDictionary))); err != nil {
		return fmt.Errorf("RateDictionary: %w", err)
	}
	if err := dict.Default.Load(bytes.NewReader([]byte(charging_dict.AbmfDictionary))); err != nil {
		return fmt.Errorf("AbmfDictionary: %w", err)
	}
	return nil
}

type xmlAVP struct {
	Name   string `xml:"name,attr"`
	Code   uint32 `xml:"code,attr"`
	Vendor uint32 `xml:"vendor-id,attr"`
	Data   struct {
		Type string `xml:"type,attr"`
	} `xml:"data"`
}

type xmlDict struct {
	Apps []struct {
		ID   uint32   `xml:"id,attr"`
		AVPs []xmlAVP `xml:"avp"`
	} `xml:"application"`
}

// dictType names the go-diameter data type the Go field type corresponds to
func goFieldDiamType(t reflect.Type) string {
	if t.Kind() == reflect.Ptr {
		t = t.Elem()
	}
	switch t {
	case reflect.TypeOf(datatype.UTF8String("")):
		return "UTF8String"
	case reflect.TypeOf(datatype.DiameterIdentity("")):
		return "DiameterIdentity"
	case reflect.TypeOf(datatype.OctetString("")):
		return "OctetString"
	case reflect.TypeOf(datatype.Unsigned32(0)):
		return "Unsigned32"
	case reflect.TypeOf(datatype.Unsigned64(0)):
		return "Unsigned64"
	case reflect.TypeOf(datatype.Integer32(0)):
		return "Integer32"
	case reflect.TypeOf(datatype.Integer64(0)):
		return "Integer64"
	case reflect.TypeOf(datatype.Time{}):
		return "Time"
	case reflect.TypeOf(datatype.Grouped{}):
		return "Grouped"
	case reflect.TypeOf(datatype.IPFilterRule("")):
		return "IPFilterRule"
	case reflect.TypeOf(datatype.Address("")):
		return "Address"
	case reflect.TypeOf(datatype.Enumerated(0)):
		return "Enumerated"
	}
	if t.Kind() == reflect.Struct {
		return "Grouped"
	}
	if t.Kind() == reflect.Int32 {
		return "Enumerated"
	}
	return "?" + t.String()
}

func c17Static() (finds []Finding, n int) {
	if err := loadDicts(); err != nil {
		return []Finding{{"dictionary-does-not-load", err.Error()}}, 0
	}
	app := uint32(charging_code.Re_interface)
	for _, name := range sortedKeys(diamTypeRegistry) {
		t := diamTypeRegistry[name]
		for i := 0; i < t.NumField(); i++ {
			f := t.Field(i)
			tag := f.Tag.Get("avp")
			if tag == "" && f.IsExported() {
				// go-diameter's marshaller carries tagged fields only (it neither flattens embedded structs nor guesses names):
				// an untagged member of a message structure never reaches the peer
				n++
				finds = append(finds, Finding{"field-without-avp-tag", fmt.Sprintf("%s.%s (%s) has no avp tag: whatever is stored in it is not sent and not received", name, f.Name, f.Type)})
			}
			if tag == "" || tag == "-" {
				continue
			}
			tag = strings.Split(tag, ",")[0]
			n++
			a, err := dict.Default.FindAVPWithVendor(app, tag, dict.UndefinedVendorID)
			if err != nil {
				a, err = dict.Default.FindAVP(app, tag)
			}
			if err != nil {
				finds = append(finds, Finding{"avp-not-in-dictionary", fmt.Sprintf("%s.%s: AVP %q is not defined for application %d: %v", name, f.Name, tag, app, err)})
				continue
			}
			want := goFieldDiamType(f.Type)
			got := a.Data.TypeName
			if got == "" {
				got = fmt.Sprint(a.Data.Type)
			}
			octets := map[string]bool{"UTF8String": true, "OctetString": true, "DiameterIdentity": true, "DiameterURI": true}
			if want != got && !(want == "Enumerated" && (got == "Enumerated" || got == "Integer32")) && !(octets[want] && octets[got]) {
				finds = append(finds, Finding{"avp-type-mismatch", fmt.Sprintf("%s.%s: Go type %s (%s) but the dictionary declares AVP %q (code %d) as %s", name, f.Name, f.Type, want, tag, a.Code, got)})
			}
		}
	}
	// unique codes within the dictionaries the components load
	byCode := map[string][]string{}
	byName := map[string][]uint32{}
	for dn, src := range map[string]string{"RateDictionary": charging_dict.RateDictionary, "AbmfDictionary": charging_dict.AbmfDictionary} {
		var xd xmlDict
		if err := xml.Unmarshal([]byte(src), &xd); err != nil {
			finds = append(finds, Finding{"dictionary-not-xml", dn + ": " + err.Error()})
			continue
		}
		for _, ap := range xd.Apps {
			for _, a := range ap.AVPs {
				n++
				k := fmt.Sprintf("app %d vendor %d code %d", ap.ID, a.Vendor, a.Code)
				if !containsStr(byCode[k], a.Name) {
					byCode[k] = append(byCode[k], a.Name)
				}
				nk := fmt.Sprintf("app %d %s", ap.ID, a.Name)
				if !containsU32(byName[nk], a.Code) {
					byName[nk] = append(byName[nk], a.Code)
				}
			}
		}
	}
	for _, k := range sortedKeys(byCode) {
		if len(byCode[k]) > 1 {
			finds = append(finds, Finding{"avp-code-not-unique", fmt.Sprintf("%s is used by the AVPs %v", k, byCode[k])})
		}
	}
	for _, k := range sortedKeys(byName) {
		if len(byName[k]) > 1 {
			finds = append(finds, Finding{"avp-defined-with-two-codes", fmt.Sprintf("%s is defined with codes %v", k, byName[k])})
		}
	}
	return
}

func containsStr(s []string, x string) bool {
	for _, y := range s {
		if y == x {
			return true
		}
	}
	return false
}

func containsU32(s []uint32, x uint32) bool {
	for _, y := range s {
		if y == x {
			return true
		}
	}
	return false
}

var (
	tUTF8  = reflect.TypeOf(datatype.UTF8String(""))
	tDI    = reflect.TypeOf(datatype.DiameterIdentity(""))
	tOct   = reflect.TypeOf(datatype.OctetString(""))
	tU32   = reflect.TypeOf(datatype.Unsigned32(0))
	tU64   = reflect.TypeOf(datatype.Unsigned64(0))
	tI32   = reflect.TypeOf(datatype.Integer32(0))
	tI64   = reflect.TypeOf(datatype.Integer64(0))
	tTime  = reflect.TypeOf(datatype.Time{})
	tGroup = reflect.TypeOf(datatype.Grouped{})
)

// buildDiam fills a message struct; every field is a decision point with a small boundary alphabet.
func buildDiam(c *Chooser, t reflect.Type, path string, depth int) reflect.Value {
	v := reflect.New(t).Elem()
	for i := 0; i < t.NumField(); i++ {
		f := t.Field(i)
		if f.Tag.Get("avp") == "" {
			// untagged members are filled as well, so that the round trip shows that they are not carried
			if f.IsExported() && f.Type.Kind() == reflect.Struct && depth <= 4 {
				v.Field(i).Set(buildDiam(c, f.Type, path+"."+f.Name, depth+1))
			}
			continue
		}
		p := path + "." + f.Name
		fv := v.Field(i)
		ft := f.Type
		switch {
		case ft == tUTF8 || ft == tDI || ft == tOct:
			s := pick(c, p, "x", "", "verif.example.org", strings.Repeat("y", 255), strings.Repeat("z", 4096), "\x00\xff\x7f")
			if ft == tDI || ft == tUTF8 {
				s = strings.ToValidUTF8(s, "?")
			}
			fv.SetString(s)
		case ft == tU32:
			fv.SetUint(uint64(pick[uint32](c, p, 1, 0, 2, math.MaxUint32-1, math.MaxUint32, 1<<31)))
		case ft == tU64:
			fv.SetUint(pick[uint64](c, p, 1, 0, 1<<32, 1<<32+5, math.MaxUint64-1, math.MaxUint64, 1<<63))
		case ft == tI32:
			fv.SetInt(int64(pick[int32](c, p, 1, 0, -1, math.MinInt32, math.MaxInt32)))
		case ft == tI64:
			fv.SetInt(pick[int64](c, p, 1, 0, -1, math.MinInt64, math.MaxInt64, 1<<32))
		case ft == tTime:
			fv.Set(reflect.ValueOf(datatype.Time(pick(c, p, time.Date(2000, 1, 1, 0, 0, 0, 0, time.UTC), time.Date(1970, 1, 1, 0, 0, 1, 0, time.UTC), time.Date(2036, 2, 7, 6, 28, 15, 0, time.UTC), time.Date(2026, 10, 1, 12, 30, 59, 0, time.UTC)))))
		case ft == tGroup:
			// opaque grouped AVPs are left absent
		case ft.Kind() == reflect.Int32:
			fv.SetInt(int64(pick[int32](c, p, 1, 0, 2, 3)))
		case ft.Kind() == reflect.Ptr && ft.Elem().Kind() == reflect.Struct:
			if depth > 4 {
				continue
			}
			// optional grouped AVP: present in the base message for the members the CHF always sends
			alts := 2
			if c.Pick(alts, p+"?") == 0 {
				pv := reflect.New(ft.Elem())
				pv.Elem().Set(buildDiam(c, ft.Elem(), p, depth+1))
				fv.Set(pv)
			}
		case ft.Kind() == reflect.Ptr:
			// pointer to opaque grouped
		}
	}
	return v
}

type c17Msg struct {
	name    string
	typ     reflect.Type
	cmd     uint32
	request bool
}

func c17Msgs() []c17Msg {
	return []c17Msg{
		{"ServiceUsageRequest", reflect.TypeOf(cd.ServiceUsageRequest{}), charging_code.ServiceUsageMessage, true},
		{"ServiceUsageResponse", reflect.TypeOf(cd.ServiceUsageResponse{}), charging_code.ServiceUsageMessage, false},
		{"AccountDebitRequest", reflect.TypeOf(cd.AccountDebitRequest{}), charging_code.ABMF_CreditControl, true},
		{"AccountDebitResponse", reflect.TypeOf(cd.AccountDebitResponse{}), charging_code.ABMF_CreditControl, false},
	}
}

type c17Args struct {
	Msg   int `json:"msg"`
	Part  int `json:"part"`
	Parts int `json:"parts"`
	K     int `json:"k"`
}

type c17Out struct {
	Cases   int            `json:"cases"`
	Finds   []Finding      `json:"finds"`
	Rules   map[string]int `json:"rules"`
	Samples []string       `json:"samples"`
}

func timeEq(a, b reflect.Value) bool {
	return time.Time(a.Interface().(datatype.Time)).Unix() == time.Time(b.Interface().(datatype.Time)).Unix()
}

// diffDiam compares sent and received structures field by field (Time at second resolution).
func diffDiam(a, b reflect.Value, path string) string {
	switch {
	case a.Type() == tGroup || (a.Kind() == reflect.Ptr && a.Type().Elem() == tGroup):
		return "" // opaque grouped AVPs are never filled in by the CHF or its peers
	case a.Type() == tTime:
		if !timeEq(a, b) {
			return fmt.Sprintf("%s: sent %v received %v", path, a.Interface(), b.Interface())
		}
		return ""
	case a.Kind() == reflect.Ptr:
		if a.IsNil() != b.IsNil() {
			// an absent grouped AVP and one whose members are all zero are indistinguishable only if the codec says so
			return fmt.Sprintf("%s: sent present=%v received present=%v", path, !a.IsNil(), !b.IsNil())
		}
		if a.IsNil() {
			return ""
		}
		return diffDiam(a.Elem(), b.Elem(), path)
	case a.Kind() == reflect.Struct:
		for i := 0; i < a.NumField(); i++ {
			if d := diffDiam(a.Field(i), b.Field(i), path+"."+a.Type().Field(i).Name); d != "" {
				return d
			}
		}
		return ""
	case a.Kind() == reflect.Slice:
		if a.Len() == 0 && b.Len() == 0 {
			return ""
		}
	}
	if !reflect.DeepEqual(a.Interface(), b.Interface()) {
		return fmt.Sprintf("%s: sent %s received %s", path, oneLine(fmt.Sprintf("%v", a.Interface()), 60), oneLine(fmt.Sprintf("%v", b.Interface()), 60))
	}
	return ""
}

func c17Job(t *testing.T, raw json.RawMessage) (any, error) {
	var a c17Args
	json.Unmarshal(raw, &a)
	out := c17Out{Rules: map[string]int{}}
	if err := loadDicts(); err != nil {
		return nil, err
	}
	mk := c17Msgs()[a.Msg]
	var cur reflect.Value
	idx := 0
	Enumerate(a.K, func(c *Chooser) { cur = buildDiam(c, mk.typ, mk.name, 0) }, func(c *Chooser) bool {
		idx++
		if idx%a.Parts != a.Part {
			return true
		}
		out.Cases++
		desc := fmt.Sprintf("%s with %v", mk.name, c.Deviations())
		var m *diam.Message
		if mk.request {
			m = diam.NewRequest(mk.cmd, charging_code.Re_interface, dict.Default)
		} else {
			m = diam.NewRequest(mk.cmd, charging_code.Re_interface, dict.Default).Answer(diam.Success)
		}
		sent := reflect.New(mk.typ)
		sent.Elem().Set(cur)
		find := func(rule, d string) {
			out.Rules[rule]++
			if out.Rules[rule] <= 3 {
				out.Finds = append(out.Finds, Finding{rule, d})
			}
		}
		if err := m.Marshal(sent.Interface()); err != nil {
			find("marshal-error/"+mk.name, desc+": "+err.Error())
			return true
		}
		var buf bytes.Buffer
		if _, err := m.WriteTo(&buf); err != nil {
			find("serialise-error/"+mk.name, desc+": "+err.Error())
			return true
		}
		m2, err := diam.ReadMessage(&buf, dict.Default)
		if err != nil {
			find("read-error/"+mk.name, desc+": "+err.Error())
			return true
		}
		got := reflect.New(mk.typ)
		if err := m2.Unmarshal(got.Interface()); err != nil {
			find("unmarshal-error/"+mk.name, desc+": "+err.Error())
			return true
		}
		want := cur
		if !mk.request {
			// Answer(diam.Success) adds Result-Code 2001 for the response structures that carry it
			if f := want.FieldByName("ResultCode"); f.IsValid() {
				cp := reflect.New(mk.typ).Elem()
				cp.Set(want)
				cp.FieldByName("ResultCode").SetUint(uint64(got.Elem().FieldByName("ResultCode").Uint()))
				want = cp
			}
		}
		if d := diffDiam(want, got.Elem(), mk.name); d != "" {
			fld := d[:strings.Index(d, ":")]
			find("field-not-intact/"+fld, desc+": "+d)
		}
		if len(out.Samples) < 2 && len(c.Deviations()) == 2 {
			out.Samples = append(out.Samples, desc+fmt.Sprintf(" -> %d octets on the wire", buf.Len()))
		}
		return true
	})
	return out, nil
}

func init() {
	jobHandlers["c17"] = c17Job
	jobHandlers["c17static"] = func(t *testing.T, raw json.RawMessage) (any, error) {
		f, n := c17Static()
		return map[string]any{"finds": f, "n": n}, nil
	}
	checks["C17"] = func(t *testing.T) int {
		rep := NewReport("C17")
		pool := NewPool(0)
		k := 2
		parts := 8
		if rep.Tier == "thorough" {
			k, parts = 3, 64
		}
		var jobs []Job
		jobs = append(jobs, Job{Kind: "c17static"})
		for mi := range c17Msgs() {
			for p := 0; p < parts; p++ {
				jobs = append(jobs, Job{Kind: "c17", Args: mustJSON(c17Args{Msg: mi, Part: p, Parts: parts, K: k})})
			}
		}
		// the same value spaces through the CHF's own client functions against a scripted peer (bound 1 quick, 2 thorough:
		// every exchange is a full connection set-up in the modelled world)
		kc, pc := 1, 2
		if rep.Tier == "thorough" {
			kc, pc = 2, 16
		}
		firstChf := len(jobs)
		for _, side := range []string{"rating", "abmf"} {
			for _, dir := range []string{"answer", "request"} {
				for p := 0; p < pc; p++ {
					jobs = append(jobs, Job{Kind: "c17chf", Args: mustJSON(c17ChfArgs{Side: side, Dir: dir, Part: p, Parts: pc, K: kc})})
				}
			}
		}
		cases, programs, chfCases := 0, 0, 0
		rules := map[string]int{}
		var samples []string
		exhaustive := true
		for i, r := range pool.RunAll(jobs) {
			if r.Crash != "" || r.Err != "" {
				rep.EngineError(r.Crash + r.Err)
				exhaustive = false
				continue
			}
			if i == 0 {
				var o struct {
					Finds []Finding `json:"finds"`
					N     int       `json:"n"`
				}
				json.Unmarshal(r.Out, &o)
				programs = o.N
				for _, f := range o.Finds {
					rep.Finding(f.Rule, f.Detail, map[string]any{"job": json.RawMessage("{}"), "kind": "c17static", "case": f.Detail})
				}
				continue
			}
			var o c17Out
			json.Unmarshal(r.Out, &o)
			cases += o.Cases
			samples = append(samples, o.Samples...)
			for kk, v := range o.Rules {
				rules[kk] += v
			}
			kind := "c17"
			if i >= firstChf {
				kind = "c17chf"
				chfCases += o.Cases
			}
			for _, f := range o.Finds {
				rep.Finding(f.Rule, f.Detail, map[string]any{"job": json.RawMessage(jobs[i].Args), "kind": kind, "case": f.Detail})
			}
		}
		rep.Cov["exchanges_through_the_chf_client_functions"] = chfCases
		if len(samples) > 5 {
			samples = samples[:5]
		}
		rep.Cov["states"] = cases
		rep.Cov["transitions"] = cases
		rep.Cov["traces_validated_against_impl"] = cases
		rep.Cov["evaluations"] = cases
		rep.Cov["distinct_nontrivial"] = cases
		rep.Cov["programs"] = programs
		rep.Cov["rule"] = "for each of the four message structures: base message + every single + every pair of deviations (each scalar at its boundary values, strings of length 0/1/255/4096 and non-UTF-8 octets, each optional grouped AVP present/absent, recursively), marshalled with msg.Marshal, serialised, re-read with diam.ReadMessage and unmarshalled with the dictionaries loaded in service order; static part: every avp tag of every struct of ccs_diameter/datatype (registry generated from the tree) resolved in the dictionary with a matching data type, and uniqueness of AVP codes / names in the two chf dictionaries"
		rep.Cov["deviation_bound"] = k
		rep.Cov["finding_counts"] = rules
		rep.Cov["exhaustive"] = exhaustive
		if len(samples) == 0 {
			samples = []string{"(none)"}
		}
		rep.Cov["samples"] = samples
		return rep.Finish()
	}
}
