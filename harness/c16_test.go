//go:build verif && go1.23

package zzverif

import (
	"encoding/hex"
	"encoding/json"
	"fmt"
	"os"
	"reflect"
	"strings"
	"testing"
	"time"

	"github.com/free5gc/chf/cdr/asn"
)

// C16: the BER decoder is safe on arbitrary bytes.

type c16Args struct {
	What  string `json:"what"` // bytes | mut | wrongtype
	Tier  string `json:"tier"`
	Part  int    `json:"part"`
	Parts int    `json:"parts"`
	MaxL  int    `json:"maxl"`
	Slow  bool   `json:"slow"`
}

type c16Stats struct {
	Decodes  int            `json:"decodes"`
	Errors   int            `json:"errors"`
	Values   int            `json:"values"`
	Inputs   int            `json:"inputs"`
	Types    int            `json:"types"`
	Finds    []Finding      `json:"finds"`
	Rules    map[string]int `json:"rules"`
	Samples  []string       `json:"samples"`
	Outcomes map[string]int `json:"outcomes"`
	Skipped  int            `json:"skipped"` // inputs not decoded any more after three witnesses of non-termination in the batch
}

func (s *c16Stats) find(rule, detail string) {
	if s.Rules == nil {
		s.Rules = map[string]int{}
	}
	s.Rules[rule]++
	if s.Rules[rule] <= 3 {
		s.Finds = append(s.Finds, Finding{rule, detail})
	}
}

// c16Types: decode targets
func c16Types() (out []uType) {
	for _, ut := range universe("quick") {
		switch typeClass(ut.Name) {
		case "prim", "cdrType":
			out = append(out, ut)
		case "gen1":
			if strings.Contains(ut.Name, "/t1/xfalse") || strings.Contains(ut.Name, "/t31/xtrue") {
				out = append(out, ut)
			}
		case "gen2":
			if strings.HasSuffix(ut.Name, "+optchoice/xfalse") || strings.HasSuffix(ut.Name, "+choices/xtrue") {
				out = append(out, ut)
			}
		}
	}
	return
}

var poison = func() []byte {
	b := make([]byte, 1<<17)
	for i := range b {
		b[i] = 0xa5
	}
	return b
}()

// decodeOne decodes a capacity-trimmed copy of in (placed in the middle of a poisoned buffer) into a fresh
// value of type t. A re-slice beyond the input panics (cap == len).
func decodeOne(st *c16Stats, ut uType, param string, in []byte, slow bool) {
	decodeExp(st, ut, param, in, slow, "")
}

// decodeExp: mustErr != "" names the class of malformed input that must be reported as an error.
func decodeExp(st *c16Stats, ut uType, param string, in []byte, slow bool, mustErr string) {
	if len(in)+64 > len(poison) {
		return
	}
	buf := poison[32 : 32+len(in) : 32+len(in)]
	copy(buf, in)
	defer func() {
		for i := range buf {
			buf[i] = 0xa5
		}
	}()
	if slow && st.Rules["does-not-terminate"] >= 3 {
		// three witnesses of non-termination are enough for this batch: every further one costs 20 s and a spinning task
		st.Skipped++
		return
	}
	st.Decodes++
	if slow {
		fmt.Fprintf(os.Stderr, "INPUT %s type=%s params=%q\n", hex.EncodeToString(in), ut.Name, param)
		done := make(chan struct{})
		var err error
		var pan string
		go func() {
			defer close(done)
			_, err, pan = unmarshalSafe(buf, ut.T, param)
		}()
		select {
		case <-done:
		case <-time.After(20 * time.Second):
			workerMustRecycle = true
			st.find("does-not-terminate", fmt.Sprintf("decoding %s into %s (params %q) still running after 20 s of an otherwise idle process", hexHead(in, 64), ut.Name, param))
			return
		}
		c16Classify(st, ut, param, in, err, pan, mustErr)
		return
	}
	_, err, pan := unmarshalSafe(buf, ut.T, param)
	c16Classify(st, ut, param, in, err, pan, mustErr)
}

func c16Classify(st *c16Stats, ut uType, param string, in []byte, err error, pan string, mustErr string) {
	if pan == "" && err == nil && mustErr != "" {
		st.find(mustErr+"-input-accepted", fmt.Sprintf("decoding the %s input %s into %s (params %q) returned a value without error", mustErr, hexHead(in, 48), ut.Name, param))
	}
	switch {
	case pan != "":
		st.find("decoder-panic/"+panicClass(pan), fmt.Sprintf("decoding %s into %s (params %q) panicked: %s", hexHead(in, 48), ut.Name, param, oneLine(pan, 140)))
	case err != nil:
		st.Errors++
	default:
		st.Values++
	}
}

func c16Job(t *testing.T, raw json.RawMessage) (any, error) {
	var a c16Args
	json.Unmarshal(raw, &a)
	st := &c16Stats{Outcomes: map[string]int{}}
	types := c16Types()
	switch a.What {
	case "bytes":
		// all byte strings up to MaxL whose first byte is in this partition (the empty string in partition 0)
		st.Types = len(types)
		for _, ut := range types {
			param := ut.Params[0]
			if a.Part == 0 {
				decodeOne(st, ut, param, nil, a.Slow)
			}
			for b0 := a.Part; b0 < 256; b0 += a.Parts {
				in := make([]byte, 0, 4)
				var rec func(l int)
				rec = func(l int) {
					decodeOne(st, ut, param, in, a.Slow)
					if l >= a.MaxL {
						return
					}
					for c := 0; c < 256; c++ {
						in = append(in, byte(c))
						rec(l + 1)
						in = in[:len(in)-1]
					}
				}
				in = append(in, byte(b0))
				rec(1)
				in = in[:0]
			}
		}
		st.Inputs = st.Decodes / max(len(types), 1)
	case "mut":
		// every truncation / bit flip / header-length substitution of valid encodings
		for ti, ut := range types {
			if ti%a.Parts != a.Part {
				continue
			}
			st.Types++
			for _, param := range ut.Params[:1] {
				p := parseBerTag(param)
				var cur reflect.Value
				k := 1
				Enumerate(k, func(c *Chooser) {
					b := &builder{c: c, maxDepth: 4}
					cur = b.build(ut.T, p, "", 0)
				}, func(c *Chooser) bool {
					enc, err, pan := marshalSafe(cur, param)
					if err != nil || pan != "" || len(enc) > 4096 {
						return true
					}
					st.Inputs++
					// what decoding a valid encoding gives must not depend on what was decoded before (the malformed
					// neighbours below): decode it before and after them
					before, e0, p0 := unmarshalSafe(append([]byte(nil), enc...), ut.T, param)
					mutateAndDecode(st, ut, param, enc, a.Slow, a.Tier == "thorough")
					if !a.Slow && e0 == nil && p0 == "" {
						after, e1, p1 := unmarshalSafe(append([]byte(nil), enc...), ut.T, param)
						switch {
						case p1 != "":
							st.find("decoder-panic/"+panicClass(p1)+"/after-earlier-inputs", fmt.Sprintf("decoding the valid encoding %s into %s (params %q) panicked after its malformed neighbours had been decoded: %s", hexHead(enc, 48), ut.Name, param, oneLine(p1, 140)))
						case e1 != nil:
							st.find("decoding-depends-on-earlier-calls", fmt.Sprintf("the valid encoding %s decoded into %s (params %q) before its malformed neighbours were decoded, and fails afterwards: %v", hexHead(enc, 48), ut.Name, param, e1))
						case !normEqual(before, after):
							st.find("decoding-depends-on-earlier-calls", fmt.Sprintf("the valid encoding %s decodes into a different %s (params %q) after its malformed neighbours were decoded", hexHead(enc, 48), ut.Name, param))
						}
					}
					return true
				})
			}
		}
	case "wrongtype":
		// zero-length primitive elements, untagged and as the [0] member of a SEQUENCE
		for _, k := range fieldKinds() {
			switch k.name {
			case "int64", "int", "int32", "bool", "bits", "enum":
				ut := uType{Name: "prim/" + k.name, T: k.t}
				for _, first := range []byte{0x02, 0x01, 0x03, 0x0a, 0x80} {
					decodeExp(st, ut, "", []byte{first, 0x00}, a.Slow, "zero-length-primitive")
					// ... followed by octets that do not belong to it (the declared length is the extent of the element)
					decodeExp(st, ut, "", []byte{first, 0x00, 0x05}, a.Slow, "zero-length-primitive")
					decodeExp(st, ut, "", []byte{first, 0x00, 0x00, 0xff}, a.Slow, "zero-length-primitive")
				}
				if k.name != "bool" && k.name != "bits" {
					// INTEGER / ENUMERATED contents that do not fit 64 bits
					for _, first := range []byte{0x02, 0x0a} {
						decodeExp(st, ut, "", []byte{first, 0x09, 0x01, 0, 0, 0, 0, 0, 0, 0, 0}, a.Slow, "integer-beyond-64-bits")
					}
				}
				gt := reflect.StructOf([]reflect.StructField{mkField("A", k, 0, false)})
				decodeExp(st, uType{Name: "gen1/" + k.name, T: gt}, "", []byte{0x30, 0x02, 0x80, 0x00}, a.Slow, "zero-length-primitive")
			}
		}
		// over-long declared lengths
		for _, ut := range types[:40] {
			for _, in := range [][]byte{{0x30, 0x05, 0x80, 0x01, 0x01}, {0x04, 0x82, 0x01, 0x00, 0x01}, {0x02, 0x7f, 0x01}, {0xa0, 0x81, 0x80, 0x01}} {
				decodeExp(st, ut, ut.Params[0], in, a.Slow, "over-long-length")
			}
			decodeExp(st, ut, ut.Params[0], nil, a.Slow, "empty")
		}
		// an element of one universal type decoded into a target of another
		type pv struct {
			name string
			v    any
			p    string
		}
		vals := []pv{{"INTEGER", int64(5), ""}, {"BOOLEAN", true, ""}, {"OCTET STRING", asn.OctetString{1, 2}, ""}, {"BIT STRING", asn.BitString{Bytes: []byte{0x80}, BitLength: 1}, ""},
			{"ENUMERATED", asn.Enumerated(3), ""}, {"NULL", asn.NULL(true), ""}, {"UTF8String", asn.UTF8String("ab"), ""}, {"SEQUENCE OF", []int64{1}, ""}}
		for _, src := range vals {
			enc, err := asn.BerMarshalWithParams(src.v, src.p)
			if err != nil {
				continue
			}
			for _, dst := range vals {
				if dst.name == src.name {
					continue
				}
				ut := uType{Name: "prim/" + dst.name, T: reflect.TypeOf(dst.v)}
				st.Decodes++
				_, derr, pan := unmarshalSafe(enc, ut.T, "")
				switch {
				case pan != "":
					st.find("decoder-panic/"+panicClass(pan), fmt.Sprintf("decoding the %s %s into a %s target panicked: %s", src.name, hexHead(enc, 16), dst.name, oneLine(pan, 120)))
				case derr == nil:
					st.find("wrongly-typed-input-accepted", fmt.Sprintf("the %s element %s decodes into an untagged %s target without error", src.name, hexHead(enc, 16), dst.name))
				default:
					st.Errors++
				}
			}
		}
	}
	return st, nil
}

// header positions (offset of each length octet run) of a well-formed element, recursively
func headerLenOffsets(b []byte, base int, out *[][2]int) {
	off := 0
	for off < len(b) {
		t, hl, err := parseHeader(b[off:])
		if err != nil {
			return
		}
		// identifier length
		idl := 1
		if b[off]&0x1f == 0x1f {
			for idl < hl && b[off+idl]&0x80 != 0 {
				idl++
			}
			idl++
		}
		*out = append(*out, [2]int{base + off + idl, hl - idl})
		if t.constructed {
			headerLenOffsets(t.content, base+off+hl, out)
		}
		off += hl + len(t.content)
	}
}

var lenSubst = [][]byte{{0}, {1}, {0x7f}, {0x80}, {0x81, 0xff}, {0x82, 0xff, 0xff}, {0x83, 0xff, 0xff, 0xff}, {0x84, 0xff, 0xff, 0xff, 0xff},
	{0x88, 0x80, 0, 0, 0, 0, 0, 0, 0}, {0x88, 0xff, 0xff, 0xff, 0xff, 0xff, 0xff, 0xff, 0xf6}, {0x88, 0x7f, 0xff, 0xff, 0xff, 0xff, 0xff, 0xff, 0xff}, {0xff}}

func mutateAndDecode(st *c16Stats, ut uType, param string, enc []byte, slow, deep bool) {
	// octets after the element: its declared length is its extent, what follows must not change the value
	if base, berr, bpan := unmarshalSafe(enc, ut.T, param); berr == nil && bpan == "" {
		for _, suf := range [][]byte{{0x00}, {0x05}, {0xff, 0xff}} {
			st.Decodes++
			v2, err2, pan2 := unmarshalSafe(append(append([]byte(nil), enc...), suf...), ut.T, param)
			switch {
			case pan2 != "":
				st.find("decoder-panic/"+panicClass(pan2), fmt.Sprintf("decoding %s followed by %x into %s (params %q) panicked: %s", hexHead(enc, 24), suf, ut.Name, param, oneLine(pan2, 120)))
			case err2 == nil && !normEqual(base, v2):
				st.find("octets-beyond-the-declared-length-change-the-value", fmt.Sprintf("the valid encoding %s of %s (params %q) followed by the octets %x decodes without error to another value: %s", hexHead(enc, 24), ut.Name, param, suf, diffValues(base, v2, "")))
			case err2 != nil:
				st.Errors++
			}
		}
	}
	// truncations
	for n := 0; n < len(enc); n++ {
		if len(enc) > 200 && n > 64 && n < len(enc)-16 && !deep {
			continue
		}
		decodeExp(st, ut, param, enc[:n], slow, "truncated")
	}
	// single-bit flips
	m := make([]byte, len(enc))
	for i := 0; i < len(enc); i++ {
		if len(enc) > 96 && i > 48 && i < len(enc)-8 && !deep {
			continue
		}
		for bit := 0; bit < 8; bit++ {
			copy(m, enc)
			m[i] ^= 1 << bit
			decodeOne(st, ut, param, m, slow)
		}
	}
	// length-octet substitutions at every header
	var offs [][2]int
	headerLenOffsets(enc, 0, &offs)
	for hi, o := range offs {
		if hi > 24 && !deep {
			break
		}
		for _, sub := range lenSubst {
			mm := append(append(append([]byte(nil), enc[:o[0]]...), sub...), enc[o[0]+o[1]:]...)
			decodeOne(st, ut, param, mm, slow)
		}
	}
	// every byte value at the first four positions
	for i := 0; i < len(enc) && i < 4; i++ {
		for c := 0; c < 256; c++ {
			copy(m, enc)
			m[i] = byte(c)
			decodeOne(st, ut, param, m, slow)
		}
	}
}

func init() {
	jobHandlers["c16"] = c16Job
	checks["C16"] = func(t *testing.T) int {
		rep := NewReport("C16")
		pool := NewPool(0)
		pool.Timeout = 90 * time.Second // a batch takes a second or two; one that does not return is re-run alone below
		maxL := 2
		if rep.Tier == "thorough" {
			maxL = 3
		}
		var jobs []Job
		mk := func(a c16Args) Job { a.Tier = rep.Tier; return Job{Kind: "c16", Check: "C16", Args: mustJSON(a)} }
		for i := 0; i < 64; i++ {
			jobs = append(jobs, mk(c16Args{What: "bytes", Part: i, Parts: 64, MaxL: maxL}))
		}
		for i := 0; i < 64; i++ {
			jobs = append(jobs, mk(c16Args{What: "mut", Part: i, Parts: 64}))
		}
		jobs = append(jobs, mk(c16Args{What: "wrongtype"}))
		total := c16Stats{Rules: map[string]int{}}
		exhaustive := true
		handle := func(i int, r JobResult, retry bool) {
			if r.Crash != "" {
				if !retry {
					return
				}
				rep.Finding("process-crash-or-hang", "decoder batch "+string(jobs[i].Args)+" (re-run alone, inputs logged): "+oneLine(r.Crash, 700), map[string]any{"job": json.RawMessage(jobs[i].Args)})
				return
			}
			if r.Err != "" {
				rep.EngineError(r.Err)
				exhaustive = false
				return
			}
			var s c16Stats
			json.Unmarshal(r.Out, &s)
			total.Decodes += s.Decodes
			total.Errors += s.Errors
			total.Values += s.Values
			total.Inputs += s.Inputs
			total.Types = max(total.Types, s.Types)
			for k, v := range s.Rules {
				total.Rules[k] += v
			}
			for _, f := range s.Finds {
				rep.Finding(f.Rule, f.Detail, map[string]any{"job": json.RawMessage(jobs[i].Args), "case": f.Detail})
			}
		}
		res := pool.RunAll(jobs)
		var redo []int
		for i, r := range res {
			if r.Crash != "" {
				redo = append(redo, i)
				continue
			}
			handle(i, r, false)
		}
		// batches that crashed or timed out are re-run alone in slow mode (every input logged, 20 s per input)
		if len(redo) > 0 {
			var rjobs []Job
			for _, i := range redo {
				var a c16Args
				json.Unmarshal(jobs[i].Args, &a)
				a.Slow = true
				rjobs = append(rjobs, Job{Kind: "c16", Check: "C16", Args: mustJSON(a)})
			}
			// (each slow batch in a process of its own: a decode that never returns keeps spinning there)
			p1 := NewPool(min(len(rjobs), 8))
			p1.Timeout = 60 * time.Minute
			p1.Env = []string{"VWORKER_RECYCLE=1"}
			for k, rr := range p1.RunAll(rjobs) {
				handle(redo[k], rr, true)
			}
		}
		rep.Cov["states"] = total.Decodes
		rep.Cov["transitions"] = total.Decodes
		rep.Cov["traces_validated_against_impl"] = total.Decodes
		rep.Cov["evaluations"] = total.Decodes
		rep.Cov["distinct_nontrivial"] = total.Values
		rep.Cov["rule"] = fmt.Sprintf("every byte string of length <= %d decoded into every target type; for every valid encoding of every base/single-deviation value of every target type: every truncation, every single-bit flip, 12 substitutions of every length field, all 256 values of the first four bytes; distinct_nontrivial = inputs decoded to a value (not rejected)", maxL)
		rep.Cov["target_types"] = total.Types
		rep.Cov["decodes_returning_error"] = total.Errors
		rep.Cov["decodes_returning_value"] = total.Values
		rep.Cov["race_pass"] = racePass(rep, "codec/concurrent-first-use")
		rep.Cov["valid_encodings_mutated"] = total.Inputs
		rep.Cov["max_exhaustive_length"] = maxL
		rep.Cov["batches_rerun_slow"] = len(redo)
		rep.Cov["exhaustive"] = exhaustive
		rep.Cov["finding_counts"] = total.Rules
		rep.Cov["samples"] = []string{"<empty> -> every type", "30 84 -> cdrType/ChargingRecord", "bf 81 48 03 80 01 c8 with bit 3 of byte 4 flipped -> cdrType/CHFRecord"}
		rep.Assumptions = append(rep.Assumptions, "inputs are capacity-trimmed sub-slices of a poisoned buffer, so any re-slice beyond the input panics", "non-termination is decided by re-running a timed-out batch alone with 20 s per single decode")
		return rep.Finish()
	}
}
