//go:build verif && go1.23

package zzverif

import (
	"encoding/json"
	"fmt"
	chf_context "github.com/free5gc/chf/internal/context"
	"net/url"
	"os"
	"reflect"
	"sort"
	"strconv"
	"strings"
	"testing"
	"time"

	"github.com/free5gc/openapi/models"
	"github.com/free5gc/util/mongoapi"
	"github.com/jlaffaye/ftp"
	"verif.local/vs"
)

// ---------------------------------------------------------------------------------------
// history mode: operations, executor, step records

type Cont struct {
	Vol     int32 `json:"v"`
	Up      int32 `json:"up,omitempty"`
	Down    int32 `json:"dn,omitempty"`
	SSU     int32 `json:"ssu,omitempty"`
	Seq     int32 `json:"seq"`
	Offline bool  `json:"off,omitempty"`
}

type MU struct {
	RG    int32  `json:"rg"`
	Req   int32  `json:"req"` // -1: no requestedUnit
	Conts []Cont `json:"c,omitempty"`
	Bulk  int    `json:"bulk,omitempty"` // replicate Conts[0] this many times in total (Seq increments)
}

type Op struct {
	K      string   `json:"k"` // create | update | release | recharge
	U      int      `json:"u"` // subscriber index into the scenario's SUPI list
	S      int      `json:"s"` // session ordinal (order of successful creates in this history)
	Ref    string   `json:"ref,omitempty"`
	Supi   string   `json:"supi,omitempty"`
	Cons   string   `json:"cons,omitempty"`
	MUs    []MU     `json:"mu,omitempty"`
	Trig   []string `json:"trig,omitempty"` // FINAL | VOLIMM | MAXCHG | MGMT | QHT ...
	Amt    int64    `json:"amt,omitempty"`
	RG     int32    `json:"rg,omitempty"`
	Seq    int32    `json:"seq,omitempty"`
	CID    int32    `json:"cid,omitempty"`
	Notify string   `json:"notify,omitempty"`
	PDU    bool     `json:"pdu,omitempty"`
	MNC    string   `json:"mnc,omitempty"` // mobile network code of the consumer's PLMN ("" = 93; MCC is 208)
	// EmptyRef: update / release addressed to the empty session reference (.../chargingdata//update)
	EmptyRef bool   `json:"emptyRef,omitempty"`
	V6       bool   `json:"v6,omitempty"`    // consumer identified by IPv6 address and FQDN instead of an IPv4 address
	NoPSI    bool   `json:"nopsi,omitempty"` // create: pDUSessionChargingInformation without pduSessionInformation (rejected after the record counter moved)
	OTE      string `json:"ote,omitempty"`   // create: one-time event of this type (IEC / PEC); opens no session
	Raw      string `json:"raw,omitempty"`   // raw JSON body override
	Path     string `json:"path,omitempty"`
	Method   string `json:"method,omitempty"`
}

func (o Op) String() string {
	b, _ := json.Marshal(o)
	return string(b)
}

func trigOf(name string) models.ChfConvergedChargingTrigger {
	switch name {
	case "FINAL":
		return models.ChfConvergedChargingTrigger{TriggerType: models.ChfConvergedChargingTriggerType_FINAL, TriggerCategory: models.TriggerCategory_IMMEDIATE_REPORT}
	case "VOLIMM":
		return models.ChfConvergedChargingTrigger{TriggerType: models.ChfConvergedChargingTriggerType_VOLUME_LIMIT, TriggerCategory: models.TriggerCategory_IMMEDIATE_REPORT}
	case "MAXCHG":
		return models.ChfConvergedChargingTrigger{TriggerType: models.ChfConvergedChargingTriggerType_MAX_NUMBER_OF_CHANGES_IN_CHARGING_CONDITIONS, TriggerCategory: models.TriggerCategory_IMMEDIATE_REPORT}
	case "MGMT":
		return models.ChfConvergedChargingTrigger{TriggerType: models.ChfConvergedChargingTriggerType_MANAGEMENT_INTERVENTION, TriggerCategory: models.TriggerCategory_IMMEDIATE_REPORT}
	case "QHT":
		return models.ChfConvergedChargingTrigger{TriggerType: models.ChfConvergedChargingTriggerType_QHT, TriggerCategory: models.TriggerCategory_IMMEDIATE_REPORT}
	case "QT":
		return models.ChfConvergedChargingTrigger{TriggerType: models.ChfConvergedChargingTriggerType_QUOTA_THRESHOLD, TriggerCategory: models.TriggerCategory_IMMEDIATE_REPORT}
	}
	return models.ChfConvergedChargingTrigger{TriggerType: models.ChfConvergedChargingTriggerType(name), TriggerCategory: models.TriggerCategory_IMMEDIATE_REPORT}
}

func (m MU) containers() []Cont {
	if m.Bulk <= 1 || len(m.Conts) == 0 {
		return m.Conts
	}
	out := make([]Cont, m.Bulk)
	for i := range out {
		out[i] = m.Conts[0]
		out[i].Seq += int32(i)
	}
	return out
}

// Request builds the SBI request body the way an SMF does.
func (o Op) Request(supi string) models.ChfConvergedChargingChargingDataRequest {
	ts := time.Date(2000, 1, 1, 0, 0, 0, 0, time.UTC)
	r := models.ChfConvergedChargingChargingDataRequest{
		SubscriberIdentifier:     supi,
		InvocationTimeStamp:      &ts,
		InvocationSequenceNumber: o.Seq,
		ChargingId:               o.CID,
		NfConsumerIdentification: &models.ChfConvergedChargingNfIdentification{NFName: o.Cons, NodeFunctionality: "SMF",
			NFIPv4Address: "10.0.0.7", NFPLMNID: &models.PlmnId{Mcc: "208", Mnc: "93"}},
	}
	if o.MNC != "" {
		r.NfConsumerIdentification.NFPLMNID.Mnc = o.MNC
	}
	if o.K != "create" && o.Notify != "" {
		r.NotifyUri = o.Notify
	}
	if o.V6 {
		r.NfConsumerIdentification.NFIPv4Address = ""
		r.NfConsumerIdentification.NFIPv6Address = "2001:db8::7"
		r.NfConsumerIdentification.NFFqdn = "smf7.example.org"
	}
	if o.K == "create" {
		r.NotifyUri = o.Notify
		if o.OTE != "" {
			r.OneTimeEvent = true
			r.OneTimeEventType = models.OneTimeEventType(o.OTE)
		}
		if o.NoPSI {
			r.PDUSessionChargingInformation = &models.ChfConvergedChargingPduSessionChargingInformation{ChargingId: o.CID}
		} else if o.PDU {
			r.PDUSessionChargingInformation = &models.ChfConvergedChargingPduSessionChargingInformation{
				ChargingId: o.CID,
				PduSessionInformation: &models.ChfConvergedChargingPduSessionInformation{PduSessionID: 5, DnnId: "internet",
					NetworkSlicingInfo: &models.NetworkSlicingInfo{SNSSAI: &models.Snssai{Sst: 1, Sd: "010203"}}},
			}
		}
	}
	for _, m := range o.MUs {
		mu := models.ChfConvergedChargingMultipleUnitUsage{RatingGroup: m.RG, UPFID: "upf-1"}
		if m.Req >= 0 {
			mu.RequestedUnit = &models.RequestedUnit{TotalVolume: m.Req}
		}
		for _, c := range m.containers() {
			q := models.QuotaManagementIndicator_ONLINE_CHARGING
			if c.Offline {
				q = models.QuotaManagementIndicator_OFFLINE_CHARGING
			}
			mu.UsedUnitContainer = append(mu.UsedUnitContainer, models.ChfConvergedChargingUsedUnitContainer{
				QuotaManagementIndicator: q, TotalVolume: c.Vol, UplinkVolume: c.Up, DownlinkVolume: c.Down,
				ServiceSpecificUnits: c.SSU, LocalSequenceNumber: c.Seq})
		}
		r.MultipleUnitUsage = append(r.MultipleUnitUsage, mu)
	}
	for _, t := range o.Trig {
		r.Triggers = append(r.Triggers, trigOf(t))
	}
	return r
}

// UnitInfo is what the response says for one rating group.
type UnitInfo struct {
	RG      int32  `json:"rg"`
	Granted int32  `json:"granted"` // -1: no grantedUnit member
	FUI     string `json:"fui,omitempty"`
	Thresh  int32  `json:"thresh,omitempty"`
}

type Step struct {
	Op    Op         `json:"op"`
	Supi  string     `json:"supi"`
	Ref   string     `json:"ref,omitempty"`
	Resp  HTTPResp   `json:"resp"`
	Units []UnitInfo `json:"units,omitempty"`
	SeqNo int32      `json:"seqNo"`
	HasTS bool       `json:"hasTs"`
	Pre   *Snap      `json:"pre,omitempty"`
	Post  *Snap      `json:"post,omitempty"`
	Notes []Note     `json:"notes,omitempty"`
	VT    int64      `json:"vtMs"`        // virtual milliseconds the request took
	H     string     `json:"h,omitempty"` // schedule fingerprint (enabled sets of every scheduling point so far) once the step is over
}

// Sess is the driver's ghost record of one session it created.
type Sess struct {
	U         int             `json:"u"`
	Supi      string          `json:"supi"`
	Ref       string          `json:"ref"`
	Loc       string          `json:"loc,omitempty"` // the Location header of the create, as received
	MNC       string          `json:"mnc,omitempty"`
	Cons      string          `json:"cons"`
	Live      bool            `json:"live"`
	LastGrant map[int32]int32 `json:"lastGrant"`
	CID       int32           `json:"cid"`
	Notify    string          `json:"notify,omitempty"`
	Tags      []int32         `json:"tags,omitempty"` // localSequenceNumbers reported on this session, in order
	CreatedAt int             `json:"createdAt"`
}

// sessionTarget: the request target of a session resource. A session the driver created is addressed the way a consumer
// does it: by the Location URI the create returned, as received (only octets that cannot appear in a URI at all are
// percent-encoded, as any HTTP client library does); a reference written by the driver itself (unknown / stale / foreign
// references) is one path segment and is escaped as such.
func sessionTarget(se *Sess, op Op, ref string) string {
	if op.EmptyRef {
		return ccBase + "/chargingdata/"
	}
	if se != nil && op.Ref == "" && se.Loc != "" {
		loc := se.Loc
		if i := strings.Index(loc, "://"); i >= 0 {
			if j := strings.Index(loc[i+3:], "/"); j >= 0 {
				loc = loc[i+3+j:]
			}
		}
		var b strings.Builder
		for i := 0; i < len(loc); i++ {
			c := loc[i]
			if c <= ' ' || c >= 0x7f || strings.IndexByte("\"<>\\^`{|}", c) >= 0 {
				fmt.Fprintf(&b, "%%%02X", c)
			} else {
				b.WriteByte(c)
			}
		}
		return b.String()
	}
	return ccBase + "/chargingdata/" + url.PathEscape(ref)
}

type HistRun struct {
	Steps []Step
	Sess  []*Sess
	// answers to the updates the re-entrant consumer sent from inside its notification handler
	ReentrantCodes []int
}

func refOf(loc string) string {
	const m = "/chargingdata/"
	if i := strings.LastIndex(loc, m); i >= 0 {
		// the reference is the last path segment of the Location URI: a URI carries it percent-encoded
		seg := loc[i+len(m):]
		if u, err := url.PathUnescape(seg); err == nil {
			return u
		}
		return seg
	}
	return ""
}

func parseUnits(body string) (units []UnitInfo, seq int32, hasTS bool) {
	var r struct {
		InvocationTimeStamp      *time.Time `json:"invocationTimeStamp"`
		InvocationSequenceNumber int32      `json:"invocationSequenceNumber"`
		MultipleUnitInformation  []struct {
			RatingGroup          int32 `json:"ratingGroup"`
			VolumeQuotaThreshold int32 `json:"volumeQuotaThreshold"`
			GrantedUnit          *struct {
				TotalVolume int32 `json:"totalVolume"`
			} `json:"grantedUnit"`
			FinalUnitIndication *struct {
				FinalUnitAction string `json:"finalUnitAction"`
			} `json:"finalUnitIndication"`
		} `json:"multipleUnitInformation"`
	}
	if json.Unmarshal([]byte(body), &r) != nil {
		return
	}
	for _, m := range r.MultipleUnitInformation {
		u := UnitInfo{RG: m.RatingGroup, Granted: -1, Thresh: m.VolumeQuotaThreshold}
		if m.GrantedUnit != nil {
			u.Granted = m.GrantedUnit.TotalVolume
		}
		if m.FinalUnitIndication != nil {
			u.FUI = m.FinalUnitIndication.FinalUnitAction
		}
		units = append(units, u)
	}
	return units, r.InvocationSequenceNumber, r.InvocationTimeStamp != nil
}

// ExecOps runs ops sequentially in the calling driver thread. snapFrom: first step index for which
// pre/post snapshots are recorded (snapshots of earlier steps are dropped to keep results small).
func (w *World) ExecOps(supis []string, ops []Op, snapFrom int, withGor bool) *HistRun {
	h := &HistRun{}
	fileWrites = nil
	w.execInto(supis, h, ops, snapFrom, withGor, true)
	return h
}

// execOn appends operations to an existing history without snapshots and without waiting for quiescence
// (used by concurrent driver threads, which must not serialise themselves).
func (w *World) execOn(supis []string, h *HistRun, ops []Op) []Step {
	n := len(h.Steps)
	w.execInto(supis, h, ops, 1<<30, false, false)
	return h.Steps[n:]
}

func (w *World) execInto(supis []string, h *HistRun, ops []Op, snapFrom int, withGor bool, quiesce bool) {
	// the re-entrant consumer updates the first live session it was told about in a create
	if !reentrantFixed {
		defer func() { reentrantConsumer = nil }()
	}
	if !reentrantFixed {
		reentrantConsumer = func() {
			for si, se := range h.Sess {
				if se.Live && se.Notify == "http://smf-reentrant.example/notify" {
					op := usageOp("update", si, 1, 10, se.LastGrant[1], int32(7000+len(h.ReentrantCodes)))
					r := w.Do("POST", ccBase+"/chargingdata/"+url.PathEscape(se.Ref)+"/update", op.Request(se.Supi), nil)
					h.ReentrantCodes = append(h.ReentrantCodes, r.Code)
					return
				}
			}
		}
	}
	base := len(h.Steps)
	for i0, op := range ops {
		i := base + i0
		curStep = i
		st := Step{Op: op}
		supi := op.Supi
		if supi == "" && op.U < len(supis) {
			supi = supis[op.U]
		}
		st.Supi = supi
		var se *Sess
		ref := op.Ref
		if ref == "" && !op.EmptyRef && op.K != "create" && op.K != "recharge" && op.K != "fill" && op.K != "jump" && op.K != "http" && op.S < len(h.Sess) {
			se = h.Sess[op.S]
			ref = se.Ref
			if op.Supi == "" {
				supi = se.Supi
				st.Supi = supi
			}
		}
		st.Ref = ref
		if quiesce {
			vs.Quiesce()
		}
		if i >= snapFrom {
			s := w.Snapshot(withGor)
			st.Pre = &s
		}
		n0 := len(notesSince(0))
		t0 := time.Now()
		var body any = op.Request(supi)
		if op.Raw != "" {
			body = op.Raw
		}
		switch op.K {
		case "create":
			st.Resp = w.Do("POST", ccBase+"/chargingdata", body, nil)
			if st.Resp.Code == 201 && op.OTE == "" {
				h.Sess = append(h.Sess, &Sess{U: op.U, Supi: supi, Ref: refOf(st.Resp.Location), Loc: st.Resp.Location, Cons: op.Cons, Live: true,
					LastGrant: map[int32]int32{}, CID: op.CID, CreatedAt: i, Notify: op.Notify, MNC: op.MNC})
				se = h.Sess[len(h.Sess)-1]
			}
		case "fill":
			// macro operation: Amt creates for the filler subscriber (advances the global record counter)
			for k := 0; k < int(op.Amt); k++ {
				fo := mkCreate(op.U, fmt.Sprintf("f%d", len(h.Sess)))
				r := w.Do("POST", ccBase+"/chargingdata", fo.Request(supi), nil)
				st.Resp = r
				if r.Code == 201 {
					h.Sess = append(h.Sess, &Sess{U: op.U, Supi: supi, Ref: refOf(r.Location), Loc: r.Location, Cons: fo.Cons, Live: true, LastGrant: map[int32]int32{}, CID: fo.CID, CreatedAt: i})
				}
			}
			se = nil
		case "jump":
			// the global record counter after 2^32 further records (a state that only a long-lived process reaches;
			// entered directly, as a non-initial start): under the context lock, by reflection whatever its width
			self := chf_context.GetSelf()
			self.Lock()
			f := reflect.ValueOf(self).Elem().FieldByName("LocalRecordSequenceNumber")
			f.SetUint(f.Uint() + 1<<32 - 1) // (one record was opened since the session that is still live: 2^32 - 1 more)
			self.Unlock()
			st.Resp.Code = 204
			se = nil
		case "cgf-drop":
			// the billing domain's FTP server closes the established control connections (restart, idle time-out)
			if srv := ftp.MemServers[cgfAddr]; srv != nil {
				srv.DropConnections()
			}
			st.Resp.Code = 204
			se = nil
		case "update":
			st.Resp = w.Do("POST", sessionTarget(se, op, ref)+"/update", body, nil)
		case "release":
			st.Resp = w.Do("POST", sessionTarget(se, op, ref)+"/release", body, nil)
			if se != nil && st.Resp.Code/100 == 2 {
				se.Live = false
			}
		case "recharge":
			// what the web console does: credit the account document, then call the recharging route
			if op.Amt != 0 {
				mongoapi.Credit(chargingColl, supi, op.RG, op.Amt)
			}
			st.Resp = w.Do("PUT", ccBase+"/recharging/"+url.PathEscape(supi+"_"+strconv.Itoa(int(op.RG))), nil, nil)
		case "http":
			st.Resp = w.Do(op.Method, op.Path, body, nil)
		}
		st.VT = time.Since(t0).Milliseconds()
		st.Units, st.SeqNo, st.HasTS = parseUnits(st.Resp.Body)
		if se != nil && st.Resp.Code/100 == 2 {
			// (a rating group named by several unit-usage entries of one request is granted once per entry: the consumer
			// holds the sum)
			seenRG := map[int32]bool{}
			for _, u := range st.Units {
				if u.Granted >= 0 {
					if seenRG[u.RG] {
						se.LastGrant[u.RG] += u.Granted
					} else {
						se.LastGrant[u.RG] = u.Granted
					}
					seenRG[u.RG] = true
				}
			}
			for _, m := range op.MUs {
				for _, c := range m.containers() {
					se.Tags = append(se.Tags, c.Seq)
				}
			}
		}
		if quiesce {
			vs.Quiesce()
			st.H = vs.CurHash()
		}
		st.Notes = notesSince(n0)
		if i >= snapFrom {
			s := w.Snapshot(withGor)
			st.Post = &s
		}
		h.Steps = append(h.Steps, st)
	}
}

// ---------------------------------------------------------------------------------------
// generic history job: replay ops, check the last step with the named oracle, return the state

type HistArgs struct {
	Cfg    WorldCfg `json:"cfg"`
	Supis  []string `json:"supis"`
	Ops    []Op     `json:"ops"`
	Oracle string   `json:"oracle"`
	Gor    bool     `json:"gor,omitempty"`
	All    bool     `json:"all,omitempty"` // check every step, not only the last
}

type Finding struct {
	Rule   string `json:"rule"`
	Detail string `json:"detail"`
}

type HistOut struct {
	Key      string    `json:"key"`  // canonical state after the history
	Info     any       `json:"info"` // what the alphabet function needs to build successors
	Finds    []Finding `json:"finds,omitempty"`
	Last     *Step     `json:"last,omitempty"`
	Engine   string    `json:"engine,omitempty"`
	Deadlock []string  `json:"deadlock,omitempty"`
	Points   int       `json:"points"`
	Hash     uint64    `json:"hash"`
	PrevH    string    `json:"prevH,omitempty"` // schedule fingerprint when the last operation started (= parent history's final fingerprint)
	LastH    string    `json:"lastH,omitempty"`
	Trace    []string  `json:"trace,omitempty"` // with All: one line per step (response, balances and reservations afterwards)
}

// HistOracle: per check; step oracle + canonical state + successor info.
type HistOracle struct {
	Step  func(w *World, h *HistRun, i int) []Finding
	State func(w *World, h *HistRun) (key string, info any)
}

var histOracles = map[string]HistOracle{}

func init() {
	jobHandlers["hist"] = func(t *testing.T, raw json.RawMessage) (any, error) {
		var a HistArgs
		if err := json.Unmarshal(raw, &a); err != nil {
			return nil, err
		}
		return runHist(t, a), nil
	}
}

func runHist(t *testing.T, a HistArgs) HistOut {
	orc := histOracles[a.Oracle]
	var out HistOut
	var h *HistRun
	o := runWorld(t, a.Cfg, nil, func(w *World) {
		vs.Go("T1", func() {
			from := len(a.Ops) - 1
			if a.All {
				from = 0
			}
			h = w.ExecOps(a.Supis, a.Ops, from, a.Gor)
		})
	}, func(w *World) any {
		if h == nil {
			return nil
		}
		if orc.Step != nil {
			from := len(h.Steps) - 1
			if a.All {
				from = 0
			}
			for i := max(from, 0); i < len(h.Steps); i++ {
				out.Finds = append(out.Finds, orc.Step(w, h, i)...)
			}
		}
		if orc.State != nil {
			out.Key, out.Info = orc.State(w, h)
		}
		if a.All {
			for i, st := range h.Steps {
				line := fmt.Sprintf("step %d %s(u%d,s%d) -> %d units=%+v", i, st.Op.K, st.Op.U, st.Op.S, st.Resp.Code, st.Units)
				if st.Post != nil {
					var ues []string
					for _, k := range sortedKeys(st.Post.UEs) {
						u := st.Post.UEs[k]
						ues = append(ues, fmt.Sprintf("%s res=%v mode=%v", k, u.Reserved, u.RatingType))
					}
					line += fmt.Sprintf(" | balances %v | %s", st.Post.Bal, strings.Join(ues, "; "))
				}
				out.Trace = append(out.Trace, line)
			}
		}
		if n := len(h.Steps); n > 0 {
			out.Last = &h.Steps[n-1]
			out.LastH = h.Steps[n-1].H
			if n > 1 {
				out.PrevH = h.Steps[n-2].H
			}
		}
		return nil
	})
	out.Points = len(o.Points)
	if n := len(o.Hashes); n > 0 {
		out.Hash = o.Hashes[n-1]
	}
	if o.Panic != "" {
		out.Engine = "panic: " + o.Panic
	}
	if o.Res.Err != "" {
		out.Engine = o.Res.Err
	}
	if o.Res.Deadlock {
		out.Deadlock = append(o.Res.Blocked, o.Res.Holders...)
		if len(out.Deadlock) == 0 {
			out.Deadlock = []string{"(unknown)"}
		}
	}
	for _, p := range o.ThPanics {
		out.Finds = append(out.Finds, Finding{"driver-panic", oneLine(p, 400)})
	}
	return out
}

// ---------------------------------------------------------------------------------------
// breadth-first search over histories (coordinator side)

type BFSSpec struct {
	Name     string
	Check    string
	Oracle   string
	Cfg      WorldCfg
	Supis    []string
	Prefix   []Op // set-up operations applied before depth 0 (the initial state is "after Prefix")
	MaxDepth int
	MaxTrans int // cap on transitions (reported as a cap if hit)
	Alphabet func(info json.RawMessage, depth int) []Op
	Gor      bool
	OnState  func(ops []Op, info json.RawMessage) // called for every transition's resulting state (before deduplication)
}

type BFSStats struct {
	States, Transitions, MaxDepthDone int
	CapHit                            bool
	PerLevel                          []int
	Samples                           []any
	Outcomes                          map[string]int
	EngineErrs                        int
	ReplayChecked                     int // transitions whose replayed prefix was compared with the parent execution's schedule fingerprint
}

type bfsNode struct {
	ops  []Op
	info json.RawMessage
	h    string // schedule fingerprint at the end of the history
}

// RunBFS explores all histories of the spec up to MaxDepth with canonical-state deduplication.
// onFind receives findings together with the full history that produced them.
func RunBFS(p *Pool, sp BFSSpec, rep *Report, st *BFSStats) {
	if st.Outcomes == nil {
		st.Outcomes = map[string]int{}
	}
	seen := map[string]bool{}
	replay0 := st.ReplayChecked
	// initial state
	mk := func(ops []Op) Job {
		return Job{Kind: "hist", Check: sp.Check, Args: mustJSON(HistArgs{Cfg: sp.Cfg, Supis: sp.Supis, Ops: ops, Oracle: sp.Oracle, Gor: sp.Gor, All: len(ops) == len(sp.Prefix)})}
	}
	handle := func(ops []Op, r JobResult) (HistOut, bool) {
		var out HistOut
		if r.Crash != "" {
			rep.Finding("process-crash", fmt.Sprintf("[%s] worker process died (fatal error / log.Fatal / os.Exit) while executing the history: %s", sp.Name, oneLine(r.Crash, 500)),
				map[string]any{"scenario": sp.Name, "cfg": sp.Cfg, "supis": sp.Supis, "ops": ops})
			return out, false
		}
		if r.Err != "" {
			rep.EngineError(sp.Name + ": " + r.Err)
			st.EngineErrs++
			return out, false
		}
		if err := json.Unmarshal(r.Out, &out); err != nil {
			rep.EngineError(sp.Name + ": bad output: " + err.Error())
			return out, false
		}
		if out.Engine != "" {
			rep.EngineError(sp.Name + ": " + out.Engine + " ops=" + fmt.Sprint(ops))
			st.EngineErrs++
			return out, false
		}
		replay := map[string]any{"scenario": sp.Name, "cfg": sp.Cfg, "supis": sp.Supis, "ops": ops, "oracle": sp.Oracle}
		if out.Deadlock != nil {
			rep.Finding("blocked-forever", fmt.Sprintf("[%s] request never completes: %v", sp.Name, out.Deadlock), replay)
		}
		for _, f := range out.Finds {
			rep.Finding(f.Rule, "["+sp.Name+"] "+f.Detail, replay)
		}
		return out, true
	}
	rs := p.RunAll([]Job{mk(sp.Prefix)})
	root, ok := handle(sp.Prefix, rs[0])
	if !ok {
		return
	}
	seen[root.Key] = true
	st.States++
	ib, _ := json.Marshal(root.Info)
	frontier := []bfsNode{{ops: sp.Prefix, info: ib, h: root.LastH}}
	for depth := 0; depth < sp.MaxDepth && len(frontier) > 0; depth++ {
		var jobs []Job
		var jops [][]Op
		var jparent []string
		for _, n := range frontier {
			for _, op := range sp.Alphabet(n.info, depth) {
				ops := append(append([]Op(nil), n.ops...), op)
				jobs = append(jobs, mk(ops))
				jops = append(jops, ops)
				jparent = append(jparent, n.h)
			}
		}
		if sp.MaxTrans > 0 && st.Transitions+len(jobs) > sp.MaxTrans {
			st.CapHit = true
			keep := sp.MaxTrans - st.Transitions
			if keep < 0 {
				keep = 0
			}
			jobs, jops = jobs[:keep], jops[:keep]
		}
		results := p.RunAll(jobs)
		var next []bfsNode
		for i, r := range results {
			st.Transitions++
			out, ok := handle(jops[i], r)
			if os.Getenv("VDEBUG_BFS") != "" {
				var ks []string
				for _, o := range jops[i] {
					ks = append(ks, fmt.Sprintf("%s(u%d,s%d,%q)", o.K, o.U, o.S, o.Cons))
				}
				fmt.Fprintf(os.Stderr, "BFS %s d%d %s -> ok=%v finds=%d key=%s\n", sp.Name, depth, strings.Join(ks, " "), ok, len(out.Finds), out.Key)
			}
			if !ok {
				continue
			}
			// determinism: replaying the parent history in a fresh world must meet exactly the scheduling points
			// (enabled sets) the parent execution met; anything else is an engine error, never a verdict
			if out.PrevH != "" && jparent[i] != "" {
				st.ReplayChecked++
				if out.PrevH != jparent[i] {
					rep.EngineError(fmt.Sprintf("%s: replay divergence: the prefix of %v ended with schedule fingerprint %s, the parent execution with %s", sp.Name, jops[i], out.PrevH, jparent[i]))
					st.EngineErrs++
					continue
				}
			}
			if out.Last != nil {
				st.Outcomes[fmt.Sprintf("%s:%d", out.Last.Op.K, out.Last.Resp.Code)]++
			}
			if len(st.Samples) < 3 && depth >= 1 && len(jops[i]) >= 2 {
				st.Samples = append(st.Samples, map[string]any{"scenario": sp.Name, "history": jops[i], "last_response": out.Last.Resp, "state": out.Key})
			}
			ib, _ := json.Marshal(out.Info)
			if sp.OnState != nil {
				sp.OnState(jops[i], ib)
			}
			if !seen[out.Key] {
				seen[out.Key] = true
				st.States++
				next = append(next, bfsNode{ops: jops[i], info: ib, h: out.LastH})
			}
		}
		st.PerLevel = append(st.PerLevel, len(jobs))
		if !st.CapHit {
			st.MaxDepthDone = depth + 1
		}
		frontier = next
		if st.CapHit {
			break
		}
	}
	rep.mu.Lock()
	prev, _ := rep.Cov["prefix_replays_compared_with_parent_execution"].(int)
	rep.Cov["prefix_replays_compared_with_parent_execution"] = prev + st.ReplayChecked - replay0
	rep.mu.Unlock()
}

func sortedKeys[V any](m map[string]V) []string {
	ks := make([]string, 0, len(m))
	for k := range m {
		ks = append(ks, k)
	}
	sort.Strings(ks)
	return ks
}
