//go:build verif && go1.23

package zzverif

import (
	"encoding/json"
	"fmt"
	"sort"
	"strconv"
	"strings"
	"testing"
)

// C01 (credit conservation) and C06 (no overdraft): history-mode BFS over the real CHF,
// real ABMF and rating servers, modelled network and account database.

type AcctInfo struct {
	Sess  []*Sess           `json:"sess"`
	Bal   map[string]int64  `json:"bal"`
	Res   map[string]int64  `json:"res"`
	Type  map[string]int    `json:"type"`
	Costs map[string]uint32 `json:"costs"`
}

func unitCostOf(cfg WorldCfg, supi string, rg int32) (int64, bool) {
	for _, a := range cfg.Accounts {
		if a.Supi == supi && a.RG == rg {
			u, err := strconv.ParseInt(a.UnitCost, 10, 64)
			return u, err == nil
		}
	}
	return 0, false
}

func splitKey(k string) (string, int32) {
	i := strings.LastIndex(k, "/")
	rg, _ := strconv.Atoi(k[i+1:])
	return k[:i], int32(rg)
}

func balOf(s *Snap, k string) (int64, bool) {
	v, ok := s.Bal[k]
	if !ok {
		return 0, false
	}
	n, err := strconv.ParseInt(v, 10, 64)
	return n, err == nil
}

func resOf(s *Snap, k string) int64 {
	supi, rg := splitKey(k)
	return s.UEs[supi].Reserved[rg]
}

func typeOf(s *Snap, k string) int {
	supi, rg := splitKey(k)
	return s.UEs[supi].RatingType[rg]
}

func onlineUsed(op Op, rg int32) (used int64, present bool) {
	for _, m := range op.MUs {
		if m.RG != rg {
			continue
		}
		for _, c := range m.containers() {
			if !c.Offline {
				if c.Vol == 0 {
					// a container that reports its usage as uplink and downlink volume only (totalVolume is optional)
					used += int64(c.Up) + int64(c.Down)
				} else {
					used += int64(c.Vol)
				}
				present = true
			}
		}
	}
	return
}

func hasTrig(op Op, t string) bool {
	for _, x := range op.Trig {
		if x == t {
			return true
		}
	}
	return false
}

func acctState(w *World, h *HistRun) (string, any) {
	s := w.Snapshot(false)
	info := AcctInfo{Sess: h.Sess, Bal: map[string]int64{}, Res: map[string]int64{}, Type: map[string]int{}}
	var parts []string
	for _, k := range sortedKeys(s.Bal) {
		b, _ := balOf(&s, k)
		info.Bal[k], info.Res[k], info.Type[k] = b, resOf(&s, k), typeOf(&s, k)
		parts = append(parts, fmt.Sprintf("%s=%d,%d,%d", k, b, info.Res[k], info.Type[k]))
	}
	var ss []string
	for _, se := range h.Sess {
		if !se.Live {
			continue
		}
		var g []string
		for rg, v := range se.LastGrant {
			g = append(g, fmt.Sprintf("%d:%d", rg, v))
		}
		sort.Strings(g)
		ss = append(ss, fmt.Sprintf("u%d[%s]", se.U, strings.Join(g, ",")))
	}
	sort.Strings(ss)
	// ghost accounting (money credited minus rated usage) is part of the state: the C06 oracle depends on it
	var gh []string
	for _, k := range sortedKeys(s.Bal) {
		supi, rg := splitKey(k)
		u, _ := unitCostOf(w.Cfg, supi, rg)
		var g int64
		for _, a := range w.Cfg.Accounts {
			if a.Supi == supi && a.RG == rg {
				g, _ = strconv.ParseInt(a.Quota, 10, 64)
			}
		}
		for _, sj := range h.Steps {
			if sj.Resp.Code/100 != 2 || sj.Supi != supi {
				continue
			}
			if sj.Op.K == "recharge" && sj.Op.RG == rg {
				g += sj.Op.Amt
			}
			if sj.Op.K == "update" || sj.Op.K == "release" || sj.Op.K == "create" {
				uj, _ := onlineUsed(sj.Op, rg)
				g -= u * uj
			}
		}
		gh = append(gh, fmt.Sprint(g))
	}
	return strings.Join(parts, ";") + "|" + strings.Join(ss, ";") + "|g" + strings.Join(gh, ","), info
}

const (
	typeReserve = 1
	typeDebit   = 2
)

// c01Step: B' + R' = B + R + credited - u * online usage reported in this request.
func c01Step(w *World, h *HistRun, i int) (fs []Finding) {
	st := h.Steps[i]
	if st.Pre == nil || st.Post == nil {
		return
	}
	if st.Resp.Code/100 != 2 {
		fs = append(fs, Finding{"unexpected-status", fmt.Sprintf("step %d %s answered %d %s", i, st.Op, st.Resp.Code, oneLine(st.Resp.Body, 120))})
		return
	}
	keys := map[string]bool{}
	for k := range st.Pre.Bal {
		keys[k] = true
	}
	for k := range st.Post.Bal {
		keys[k] = true
	}
	for _, k := range sortedKeys(keys) {
		supi, rg := splitKey(k)
		b0, ok0 := balOf(st.Pre, k)
		b1, ok1 := balOf(st.Post, k)
		if !ok0 || !ok1 {
			fs = append(fs, Finding{"balance-unreadable", fmt.Sprintf("step %d: account %s stored balance %q -> %q", i, k, st.Pre.Bal[k], st.Post.Bal[k])})
			continue
		}
		r0, r1 := resOf(st.Pre, k), resOf(st.Post, k)
		u, _ := unitCostOf(w.Cfg, supi, rg)
		var credited, used int64
		if st.Op.K == "recharge" && st.Supi == supi && st.Op.RG == rg {
			credited = st.Op.Amt
		}
		if (st.Op.K == "update" || st.Op.K == "release" || st.Op.K == "create") && st.Supi == supi {
			used, _ = onlineUsed(st.Op, rg)
		}
		want := b0 + r0 + credited - u*used
		if b1+r1 != want && st.Op.K == "create" && used > 0 && b1+r1 == b0+r0 {
			// positively recognised known defect: online usage reported in a create request is never rated
			fs = append(fs, Finding{"credit-not-conserved/usage-reported-in-create", fmt.Sprintf("step %d %s: %d units of online usage of rating group %d reported in the create (unit cost %d) left balance %d and reservation %d of account %s untouched", i, st.Op, used, rg, u, b1, r1, k)})
			continue
		}
		if b1+r1 != want {
			fs = append(fs, Finding{"credit-not-conserved", fmt.Sprintf("step %d %s: account %s balance %d->%d reservation %d->%d, unit cost %d, online usage %d, credited %d: balance+reservation is %d, expected %d (difference %+d)",
				i, st.Op, k, b0, b1, r0, r1, u, used, credited, b1+r1, want, b1+r1-want)})
		}
		// after a completed final debit nothing stays reserved
		if _, present := onlineUsed(st.Op, rg); present && st.Supi == supi && (hasTrig(st.Op, "FINAL") || typeOf(st.Pre, k) == typeDebit) && (st.Op.K == "update" || st.Op.K == "release") {
			if r1 != 0 {
				fs = append(fs, Finding{"reservation-kept-after-final-debit", fmt.Sprintf("step %d %s: account %s reservation %d after final debit (balance %d->%d)", i, st.Op, k, r1, b0, b1)})
			}
		}
	}
	return
}

// rgTwice: the request names rating group rg in more than one unit-usage entry that asks for units
func rgTwice(op Op, rg int32) bool {
	n := 0
	for _, m := range op.MUs {
		if m.RG == rg && m.Req >= 0 {
			n++
		}
	}
	return n > 1
}

func rgTwiceBefore(h *HistRun, i int, k string) bool {
	supi, rg := splitKey(k)
	for j := 0; j <= i && j < len(h.Steps); j++ {
		if sj := h.Steps[j]; sj.Supi == supi && sj.Resp.Code/100 == 2 && rgTwice(sj.Op, rg) {
			return true
		}
	}
	return false
}

// sessionsShareReservation: before step i, two different sessions of the account's subscriber held a grant > 0 on the
// account's rating group at the same time.
func sessionsShareReservation(h *HistRun, i int, k string) bool {
	outstanding := map[string]int32{} // session reference -> last grant on the rating group
	for j := 0; j < i && j < len(h.Steps); j++ {
		sj := h.Steps[j]
		if sj.Resp.Code/100 != 2 || sj.Ref == "" {
			continue
		}
		if sj.Op.K == "release" {
			delete(outstanding, sj.Ref)
			continue
		}
		for _, u := range sj.Units {
			if balKey(sj.Supi, u.RG) == k && u.Granted >= 0 {
				outstanding[sj.Ref] = u.Granted
			}
		}
		n := 0
		for _, g := range outstanding {
			if g > 0 {
				n++
			}
		}
		if n >= 2 {
			return true
		}
	}
	return false
}

// c06Step: no negative balance; grant limited to what the remaining money buys, with final-unit indication.
func c06Step(w *World, h *HistRun, i int) (fs []Finding) {
	st := h.Steps[i]
	if st.Pre == nil || st.Post == nil {
		return
	}
	for _, k := range sortedKeys(st.Post.Bal) {
		if b1, ok := balOf(st.Post, k); ok && b1 < 0 {
			b0, _ := balOf(st.Pre, k)
			rule := "negative-balance"
			if rgTwiceBefore(h, i, k) {
				// positively recognised known defect: one request naming a rating group in two unit-usage entries is granted
				// once per entry against the same money
				rule = "negative-balance/rating-group-twice-in-one-request"
			} else if sessionsShareReservation(h, i, k) {
				// positively recognised known defect (see known_findings.json): the reservation is kept per subscriber and
				// rating group, so two sessions of one subscriber are granted against the same money
				rule = "negative-balance/sessions-share-reservation"
			}
			fs = append(fs, Finding{rule, fmt.Sprintf("step %d %s: account %s balance %d -> %d (reservation %d -> %d)", i, st.Op, k, b0, b1, resOf(st.Pre, k), resOf(st.Post, k))})
		}
	}
	if st.Op.K != "update" || st.Resp.Code != 200 {
		return
	}
	doneRG := map[int32]bool{}
	for _, m0 := range st.Op.MUs {
		if m0.Req < 0 || doneRG[m0.RG] {
			continue
		}
		doneRG[m0.RG] = true
		// what the request asks for and is granted on this rating group, over all its unit-usage entries
		m := MU{RG: m0.RG}
		for _, mm := range st.Op.MUs {
			if mm.RG == m0.RG && mm.Req >= 0 {
				m.Req += mm.Req
			}
		}
		if _, online := onlineUsed(st.Op, m.RG); !online {
			continue
		}
		k := balKey(st.Supi, m.RG)
		b0, ok := balOf(st.Pre, k)
		if !ok {
			continue
		}
		u, _ := unitCostOf(w.Cfg, st.Supi, m.RG)
		if u <= 0 {
			continue
		}
		// money still available = everything ever credited minus the rated price of all usage reported so far
		// (ghost accounting by the driver; equals balance + unconsumed reservation whenever C01 holds, and does
		// not trust the CHF's own idea of its reservation)
		var initial int64
		for _, a := range w.Cfg.Accounts {
			if a.Supi == st.Supi && a.RG == m.RG {
				initial, _ = strconv.ParseInt(a.Quota, 10, 64)
			}
		}
		avail := initial
		for j := 0; j <= i; j++ {
			sj := h.Steps[j]
			if sj.Resp.Code/100 != 2 || sj.Supi != st.Supi {
				continue
			}
			if sj.Op.K == "recharge" && sj.Op.RG == m.RG && j < i {
				avail += sj.Op.Amt
			}
			if sj.Op.K == "update" || sj.Op.K == "release" {
				uj, _ := onlineUsed(sj.Op, m.RG)
				avail -= u * uj
			}
		}
		if avail < 0 {
			avail = 0
		}
		rem := avail - b0
		buys := avail / u
		var ui *UnitInfo
		var granted int64
		for j := range st.Units {
			if st.Units[j].RG == m.RG {
				ui = &st.Units[j]
				if ui.Granted > 0 {
					granted += int64(ui.Granted)
				}
			}
		}
		if ui == nil {
			continue
		}
		suffix := ""
		if rgTwice(st.Op, m.RG) {
			suffix = "/rating-group-twice-in-one-request"
		}
		if buys < int64(m.Req) {
			mode := "reserve"
			if typeOf(st.Pre, k) == typeDebit || hasTrig(st.Op, "FINAL") {
				mode = "debit"
			}
			if granted > buys {
				fs = append(fs, Finding{"over-grant" + suffix, fmt.Sprintf("step %d %s: account %s balance %d, unconsumed reservation %d, unit cost %d: money buys %d units, requested %d, granted %d (fui=%q, mode=%s)",
					i, st.Op, k, b0, rem, u, buys, m.Req, granted, ui.FUI, mode)})
			}
			if ui.FUI != "TERMINATE" {
				fs = append(fs, Finding{"no-final-unit-indication/" + mode + suffix, fmt.Sprintf("step %d %s: account %s money buys %d < requested %d, granted %d, but finalUnitAction=%q (mode=%s)",
					i, st.Op, k, buys, m.Req, granted, ui.FUI, mode)})
			}
		}
	}
	return
}

func init() {
	histOracles["C01"] = HistOracle{Step: c01Step, State: acctState}
	histOracles["C06"] = HistOracle{Step: c06Step, State: acctState}
	checks["C01"] = func(t *testing.T) int { return acctCheck(t, "C01") }
	checks["C06"] = func(t *testing.T) int { return acctCheck(t, "C06") }
}

const (
	supiA = "imsi-208930000000001"
	supiB = "imsi-208930000000002"
)

type acctScenario struct {
	name     string
	accounts []Account
	prefix   []Op
	depth    int
	maxTrans int
	twoSess  bool
	twoUE    bool
	rgs      [][]int32
	usedSyms []string // zero half all over
	reqs     []int32
	extras   bool // partial-record trigger, release without usage, recharge of rg2
	split    bool // used units reported in two online containers
}

func mkCreate(u int, cons string) Op {
	op := Op{K: "create", U: u, Cons: cons, Notify: "http://smf-a.example/notify", Seq: 1, CID: int32(10 + u), PDU: true}
	if cons == "smf2" {
		op.MNC = "410" // every second consumer sits in a network with a three-digit mobile network code
	}
	return op
}

// acctAlphabet builds the successor operations of a state.
func (sc acctScenario) alphabet(disciplined bool) func(info json.RawMessage, depth int) []Op {
	return func(raw json.RawMessage, depth int) (ops []Op) {
		var in AcctInfo
		json.Unmarshal(raw, &in)
		live := map[int]int{}
		for _, s := range in.Sess {
			if s.Live {
				live[s.U]++
			}
		}
		nUE := 1
		if sc.twoUE {
			nUE = 2
		}
		maxSess := 1
		if sc.twoSess {
			maxSess = 2
		}
		for u := 0; u < nUE; u++ {
			if live[u] < maxSess {
				ops = append(ops, mkCreate(u, "smf"+strconv.Itoa(live[u]+1)))
				if !disciplined && sc.twoSess {
					// a create that already reports online usage (20 units of rating group 1)
					c := mkCreate(u, "smf"+strconv.Itoa(live[u]+1))
					c.MUs = []MU{{RG: 1, Req: 50, Conts: []Cont{{Vol: 20, Up: 8, Down: 12, Seq: int32(100*(depth+1) + 70)}}}}
					ops = append(ops, c)
				}
			}
			if !disciplined && sc.extras && depth <= 1 {
				// a one-time event (immediate event charging) reporting 20 units used online
				ev := mkCreate(u, "smf-ev")
				ev.OTE = "IEC"
				ev.MUs = []MU{{RG: 1, Req: -1, Conts: []Cont{{Vol: 20, Up: 8, Down: 12, Seq: int32(100*(depth+1) + 71)}}}}
				ops = append(ops, ev)
			}
		}
		seq := int32(100 * (depth + 1))
		for si, s := range in.Sess {
			if !s.Live {
				continue
			}
			for _, rgs := range sc.rgs {
				for _, us := range sc.usedSyms {
					if us == "over" && disciplined {
						continue
					}
					mkMUs := func(req int32) []MU {
						var mus []MU
						for _, rg := range rgs {
							g := s.LastGrant[rg]
							var used int32
							switch us {
							case "zero":
								used = 0
							case "half":
								used = (g + 1) / 2
							case "all":
								used = g
							case "over":
								used = g + 50
							}
							mus = append(mus, MU{RG: rg, Req: req, Conts: []Cont{{Vol: used, Up: used / 3, Down: used - used/3, Seq: seq + rg}}})
						}
						return mus
					}
					for _, req := range sc.reqs {
						ops = append(ops, Op{K: "update", S: si, MUs: mkMUs(req), Seq: seq})
					}
					if us == "all" && sc.split && len(rgs) == 1 {
						// the rating group named by two unit-usage entries of one request (two UPFs), each asking for units
						mus := mkMUs(sc.reqs[0])
						second := MU{RG: mus[0].RG, Req: sc.reqs[0], Conts: []Cont{{Vol: 0, Seq: seq + 65}}}
						ops = append(ops, Op{K: "update", S: si, MUs: append(mus, second), Seq: seq})
					}
					if us == "all" && sc.split {
						// the usage reported as uplink and downlink volume, without a total
						mus := mkMUs(sc.reqs[0])
						for i := range mus {
							c := &mus[i].Conts[0]
							c.Up, c.Down, c.Vol = c.Vol/3, c.Vol-c.Vol/3, 0
						}
						ops = append(ops, Op{K: "update", S: si, MUs: mus, Seq: seq})
					}
					if (us == "all" || us == "half") && (sc.extras || sc.split) {
						// a pure usage report: no requestedUnit member, no trigger (the usage is still consumed from the reservation)
						ops = append(ops, Op{K: "update", S: si, MUs: mkMUs(-1), Seq: seq})
					}
					if us == "zero" || us == "all" || us == "over" {
						ops = append(ops, Op{K: "update", S: si, MUs: mkMUs(-1), Trig: []string{"FINAL"}, Seq: seq})
						ops = append(ops, Op{K: "release", S: si, MUs: mkMUs(-1), Trig: []string{"FINAL"}, Seq: seq})
					}
					if sc.extras && us == "all" {
						ops = append(ops, Op{K: "update", S: si, MUs: mkMUs(sc.reqs[0]), Trig: []string{"VOLIMM"}, Seq: seq})
						// online and offline containers mixed in one unit usage, in both orders (only the online ones are charged)
						for _, offlineLast := range []bool{true, false} {
							mus := mkMUs(sc.reqs[0])
							for i := range mus {
								off := Cont{Vol: 9, Up: 4, Down: 5, Seq: seq + 50 + mus[i].RG, Offline: true}
								if offlineLast {
									mus[i].Conts = append(mus[i].Conts, off)
								} else {
									mus[i].Conts = append([]Cont{off}, mus[i].Conts...)
								}
							}
							ops = append(ops, Op{K: "update", S: si, MUs: mus, Seq: seq})
						}
					}
					if us == "all" && (sc.extras || sc.split) {
						// the units used since the last report split over two online containers of one unit usage
						// (e.g. a tariff change in between): the sum is what has been used
						mus := mkMUs(sc.reqs[0])
						split := false
						for i := range mus {
							c := mus[i].Conts[0]
							if c.Vol < 2 {
								continue
							}
							a := c.Vol / 3
							c1, c2 := c, c
							c1.Vol, c1.Up, c1.Down = a, a/3, a-a/3
							c2.Vol, c2.Up, c2.Down, c2.Seq = c.Vol-a, (c.Vol-a)/3, (c.Vol-a)-(c.Vol-a)/3, c.Seq+60
							mus[i].Conts = []Cont{c1, c2}
							split = true
						}
						if split {
							ops = append(ops, Op{K: "update", S: si, MUs: mus, Seq: seq})
							// the same, the later container reporting its share per direction only (no total)
							mus2 := make([]MU, len(mus))
							for i := range mus {
								mus2[i] = mus[i]
								mus2[i].Conts = append([]Cont{}, mus[i].Conts...)
								if len(mus2[i].Conts) == 2 {
									mus2[i].Conts[1].Vol = 0
								}
							}
							ops = append(ops, Op{K: "update", S: si, MUs: mus2, Seq: seq})
						}
					}
				}
			}
			if sc.extras {
				ops = append(ops, Op{K: "release", S: si, Seq: seq})
			}
		}
		// recharge (only meaningful once the subscriber exists at the CHF)
		for u := 0; u < nUE; u++ {
			known := false
			for _, s := range in.Sess {
				if s.U == u {
					known = true
				}
			}
			if known {
				ops = append(ops, Op{K: "recharge", U: u, RG: 1, Amt: 200})
				if sc.extras && u == 0 {
					ops = append(ops, Op{K: "recharge", U: u, RG: 2, Amt: 200})
				}
			}
		}
		return
	}
}

func acctScenarios(prop, tier string) []acctScenario {
	one := [][]int32{{1}}
	var scs []acctScenario
	if prop == "C01" {
		scs = []acctScenario{
			{name: "1sess-rg1-u2-b1000", accounts: []Account{{supiA, 1, "1000", "2"}}, prefix: []Op{mkCreate(0, "smf1")}, depth: 4,
				rgs: one, usedSyms: []string{"zero", "half", "all", "over"}, reqs: []int32{50, 100}, split: true},
			{name: "1sess-rg1-u3-b150", accounts: []Account{{supiA, 1, "150", "3"}}, prefix: []Op{mkCreate(0, "smf1")}, depth: 5,
				rgs: one, usedSyms: []string{"zero", "all", "over"}, reqs: []int32{100}},
			{name: "1sess-rg1-u1-b0", accounts: []Account{{supiA, 1, "0", "1"}}, prefix: []Op{mkCreate(0, "smf1")}, depth: 4,
				rgs: one, usedSyms: []string{"zero", "all", "over"}, reqs: []int32{50}},
			{name: "1sess-2rg", accounts: []Account{{supiA, 1, "1000", "2"}, {supiA, 2, "150", "1"}}, prefix: []Op{mkCreate(0, "smf1")}, depth: 3,
				rgs: [][]int32{{1}, {2}, {1, 2}}, usedSyms: []string{"zero", "all", "over"}, reqs: []int32{100}, extras: true},
			{name: "2sess-2ue", accounts: []Account{{supiA, 1, "300", "2"}, {supiB, 1, "150", "3"}}, depth: 4,
				rgs: one, usedSyms: []string{"all", "over"}, reqs: []int32{100}, twoSess: true, twoUE: true},
		}
		if tier == "thorough" {
			scs[0].depth, scs[1].depth, scs[2].depth, scs[3].depth, scs[4].depth = 6, 8, 7, 5, 6
			scs = append(scs, acctScenario{name: "1sess-rg1-u7-b1000-deep", accounts: []Account{{supiA, 1, "1000", "7"}}, prefix: []Op{mkCreate(0, "smf1")}, depth: 6,
				rgs: one, usedSyms: []string{"zero", "half", "all", "over"}, reqs: []int32{30, 100}, extras: true})
		}
		return scs
	}
	// C06: disciplined consumers; balances around the boundaries of one requested quota
	for _, a := range []struct {
		b, u string
		d    int
	}{{"1000", "2", 4}, {"0", "2", 3}, {"1", "2", 3}, {"2", "2", 3}, {"199", "2", 4}, {"200", "2", 4}, {"150", "3", 4}, {"100", "1", 4}} {
		reqs := []int32{50, 100}
		if a.u == "3" {
			reqs = append(reqs, 1431655766) // x 3 = 2^32 + 2: the price of the request wraps around 32 bits
		}
		scs = append(scs, acctScenario{name: "1sess-b" + a.b + "-u" + a.u, accounts: []Account{{supiA, 1, a.b, a.u}}, prefix: []Op{mkCreate(0, "smf1")}, depth: a.d,
			rgs: one, usedSyms: []string{"zero", "half", "all"}, reqs: reqs, split: a.b == "1000" || a.b == "200" || a.b == "150"})
	}
	scs = append(scs, acctScenario{name: "2sess-b300-u2", accounts: []Account{{supiA, 1, "300", "2"}}, depth: 4,
		rgs: one, usedSyms: []string{"zero", "all"}, reqs: []int32{100}, twoSess: true})
	// two sessions of one subscriber that both hold a grant on the same rating group (starts where the shorter scenario's depth ends)
	scs = append(scs, acctScenario{name: "2sess-b300-u2-both-granted", accounts: []Account{{supiA, 1, "300", "2"}}, depth: 2,
		prefix: []Op{mkCreate(0, "smf1"), mkCreate(0, "smf2"), usageOp("update", 0, 1, 100, 0, 301), usageOp("update", 1, 1, 100, 0, 401)},
		rgs:    one, usedSyms: []string{"zero", "all"}, reqs: []int32{100}, twoSess: true})
	scs = append(scs, acctScenario{name: "2rg-b250", accounts: []Account{{supiA, 1, "250", "2"}, {supiA, 2, "120", "1"}}, prefix: []Op{mkCreate(0, "smf1")}, depth: 3,
		rgs: [][]int32{{1}, {2}, {1, 2}}, usedSyms: []string{"zero", "all"}, reqs: []int32{100}, extras: true})
	if tier == "thorough" {
		for i := range scs {
			scs[i].depth += 3
		}
	}
	return scs
}

func acctCheck(t *testing.T, prop string) int {
	rep := NewReport(prop)
	pool := NewPool(0)
	total := BFSStats{Outcomes: map[string]int{}}
	var perScen []map[string]any
	exhaustive := true
	// histories to be replayed on the real stack afterwards (C01 only): every explored history of the first levels of
	// every scenario, up to a number per scenario
	var conf []confArgs
	perScenConf := 12
	if rep.Tier == "thorough" {
		perScenConf = 80
	}
	for _, sc := range acctScenarios(prop, rep.Tier) {
		st := BFSStats{}
		sp := BFSSpec{Name: sc.name, Check: prop, Oracle: prop, Cfg: WorldCfg{Accounts: sc.accounts}, Supis: []string{supiA, supiB},
			Prefix: sc.prefix, MaxDepth: sc.depth, MaxTrans: sc.maxTrans, Alphabet: sc.alphabet(prop == "C06")}
		if prop == "C01" {
			n := 0
			cfg := sp.Cfg
			sp.OnState = func(ops []Op, _ json.RawMessage) {
				// breadth first: the deepest histories below the cap are kept (they extend the shorter ones)
				if n < 4*perScenConf {
					n++
					if n%4 == 0 {
						conf = append(conf, confArgs{Cfg: cfg, Supis: []string{supiA, supiB}, Ops: append([]Op(nil), ops...)})
					}
				}
			}
		}
		RunBFS(pool, sp, rep, &st)
		total.States += st.States
		total.Transitions += st.Transitions
		for k, v := range st.Outcomes {
			total.Outcomes[k] += v
		}
		total.Samples = append(total.Samples, st.Samples...)
		if st.CapHit || st.EngineErrs > 0 {
			exhaustive = false
		}
		perScen = append(perScen, map[string]any{"scenario": sc.name, "accounts": sc.accounts, "depth_bound": sc.depth, "depth_completed": st.MaxDepthDone,
			"states": st.States, "transitions": st.Transitions, "per_level": st.PerLevel, "cap_hit": st.CapHit})
	}
	if len(total.Samples) > 6 {
		total.Samples = total.Samples[:6]
	}
	rep.Cov["states"] = total.States
	rep.Cov["transitions"] = total.Transitions
	rep.Cov["traces_validated_against_impl"] = total.Transitions
	rep.Cov["samples"] = total.Samples
	rep.Cov["exhaustive"] = exhaustive
	rep.Cov["scenarios"] = perScen
	rep.Cov["distinct_outcomes"] = total.Outcomes
	rep.Cov["worker_crashes"] = pool.Crashes
	if prop == "C01" {
		cr := conformanceReplay(rep, conf)
		rep.Cov["conformance_replay_on_real_stack"] = cr
		if ran, _ := cr["ran"].(bool); ran {
			rep.Cov["traces_validated_against_impl"] = total.Transitions
			rep.Cov["traces_replayed_on_real_tcp_tls_stack"] = cr["agree"]
		}
	}
	rep.Cov["method"] = "breadth-first search over operation histories; every transition executes the real CHF processor, Diameter clients and ABMF/rating servers (modelled network, database and clock) from a fresh world by replaying the history; states deduplicated by (balance, reservation, rating mode) per account and last grant per live session"
	rep.Assumptions = append(rep.Assumptions, "the transition function is the implementation itself, so every explored trace is an implementation trace (traces_validated_against_impl = transitions)",
		"MongoDB is modelled by an in-memory store with find-one / upsert-$set semantics; TCP by ordered reliable in-memory pipes",
		"tariff constant within a history, integer unit costs, products within Unsigned32")
	return rep.Finish()
}
