//go:build verif && go1.23

package zzverif

import (
	"bytes"
	"encoding/hex"
	"encoding/json"
	"fmt"
	"reflect"
	"strings"
	"testing"

	"github.com/free5gc/chf/cdr/asn"
)

// ---------------------------------------------------------------------------------------
// type universe: registry types (generated from the tree) + primitives + generated struct types

type uType struct {
	Name   string
	T      reflect.Type
	Params []string // top-level parameter strings to marshal with
}

var (
	tInt64  = reflect.TypeOf(int64(0))
	tInt    = reflect.TypeOf(int(0))
	tInt32  = reflect.TypeOf(int32(0))
	tBool   = reflect.TypeOf(false)
	tString = reflect.TypeOf("")
	tInner  = reflect.StructOf([]reflect.StructField{
		{Name: "A", Type: tInt64, Tag: `ber:"tagNum:0"`},
		{Name: "B", Type: reflect.PointerTo(asn.OctetStringType), Tag: `ber:"tagNum:1,optional"`},
	})
	tChoice = reflect.StructOf([]reflect.StructField{
		{Name: "Present", Type: tInt},
		{Name: "A", Type: reflect.PointerTo(tInt64), Tag: `ber:"tagNum:0"`},
		{Name: "B", Type: reflect.PointerTo(asn.OctetStringType), Tag: `ber:"tagNum:1"`},
		{Name: "C", Type: reflect.PointerTo(tInner), Tag: `ber:"tagNum:2"`},
		{Name: "D", Type: reflect.PointerTo(tInt64), Tag: `ber:"tagNum:31"`},
		{Name: "E", Type: reflect.PointerTo(asn.IA5StringType), Tag: `ber:"tagNum:128"`},
	})
	tValueWrap = reflect.StructOf([]reflect.StructField{{Name: "Value", Type: tInt64}})
	tStrWrap   = reflect.StructOf([]reflect.StructField{{Name: "Value", Type: asn.IA5StringType}})
	tListWrap  = reflect.StructOf([]reflect.StructField{{Name: "List", Type: reflect.SliceOf(tInt64)}})
	tEmpty     = reflect.StructOf(nil)
)

type fieldKind struct {
	name  string
	t     reflect.Type
	extra string // additional tag parameters
	opt   bool
}

func fieldKinds() []fieldKind {
	return []fieldKind{
		{"int64", tInt64, "", false}, {"int", tInt, "", false}, {"int32", tInt32, "", false}, {"bool", tBool, "", false},
		{"utf8", asn.UTF8StringType, "", false}, {"ia5", asn.IA5StringType, "", false}, {"graphic", asn.GraphicStringType, "", false},
		{"string-utf8", tString, "utf8", false}, {"octets", asn.OctetStringType, "", false}, {"bits", asn.BitStringType, "", false},
		{"enum", asn.EnumeratedType, "", false}, {"null", asn.NullType, "", false},
		{"optint", reflect.PointerTo(tInt64), "optional", true}, {"optoctets", reflect.PointerTo(asn.OctetStringType), "optional", true},
		{"optbits", reflect.PointerTo(asn.BitStringType), "optional", true}, {"optbool", reflect.PointerTo(tBool), "optional", true},
		{"ints", reflect.SliceOf(tInt64), "", false}, {"optints", reflect.SliceOf(tInt64), "optional", true},
		{"seq", tInner, "", false}, {"set", tInner, "set", false}, {"optseq", reflect.PointerTo(tInner), "optional", true},
		{"choice", tChoice, "choice", false}, {"optchoice", reflect.PointerTo(tChoice), "optional,choice", true},
		{"valwrap", tValueWrap, "", false}, {"strwrap", tStrWrap, "", false}, {"listwrap", tListWrap, "", false},
		{"seqs", reflect.SliceOf(tInner), "", false}, {"choices", reflect.SliceOf(tChoice), "", false},
		{"octetslist", reflect.SliceOf(asn.OctetStringType), "", false},
		// SET OF: the list is a SET, its elements keep their own type
		{"setofseqs", reflect.SliceOf(tInner), "set", false}, {"setofints", reflect.SliceOf(tInt64), "set", false},
		{"setoflists", reflect.SliceOf(reflect.SliceOf(tInt64)), "set", false},
		// Go kinds the codec has no encoding for: an error, not a crash
		{"int16", reflect.TypeOf(int16(0)), "", false}, {"uint32", reflect.TypeOf(uint32(0)), "", false}, {"float64", reflect.TypeOf(float64(0)), "", false},
		{"uint8s", reflect.SliceOf(reflect.TypeOf(uint8(0))), "", false},
		// SEQUENCE {} (no members)
		{"empty", tEmpty, "", false}, {"optempty", reflect.PointerTo(tEmpty), "optional", true}, {"emptys", reflect.SliceOf(tEmpty), "", false},
	}
}

var genTags = []uint64{0, 1, 30, 31, 127, 128, 16383, 16384, 2097151, 2097152}

func mkField(name string, k fieldKind, tag uint64, explicit bool) reflect.StructField {
	s := fmt.Sprintf("tagNum:%d", tag)
	if k.extra != "" {
		s += "," + k.extra
	}
	if explicit {
		s += ",explicit"
	}
	return reflect.StructField{Name: name, Type: k.t, Tag: reflect.StructTag(`ber:"` + s + `"`)}
}

func universe(tier string) (out []uType) {
	// primitives and codec-level types, untagged and tagged at top level
	prim := []struct {
		n string
		t reflect.Type
		p string
	}{{"int64", tInt64, ""}, {"int", tInt, ""}, {"int32", tInt32, ""}, {"bool", tBool, ""}, {"BitString", asn.BitStringType, ""}, {"OctetString", asn.OctetStringType, ""},
		{"Enumerated", asn.EnumeratedType, ""}, {"NULL", asn.NullType, ""}, {"UTF8String", asn.UTF8StringType, "utf8"}, {"IA5String", asn.IA5StringType, "ia5"},
		{"GraphicString", asn.GraphicStringType, "graphic"}, {"string", tString, "utf8"}, {"ObjectIdentifier", asn.ObjectIdentifierType, ""},
		{"[]int64", reflect.SliceOf(tInt64), ""}, {"[]OctetString", reflect.SliceOf(asn.OctetStringType), ""},
		{"SET OF Inner", reflect.SliceOf(tInner), "set"}, {"SET OF []int64", reflect.SliceOf(reflect.SliceOf(tInt64)), "set"}, {"SEQUENCE {}", tEmpty, ""}}
	for _, p := range prim {
		ps := []string{p.p}
		for _, tg := range []string{"tagNum:0", "tagNum:31,explicit", "tagNum:16384"} {
			if p.p != "" {
				ps = append(ps, p.p+","+tg)
			} else {
				ps = append(ps, tg)
			}
		}
		out = append(out, uType{"prim/" + p.n, p.t, ps})
	}
	// every exported type of cdr/cdrType of the tree under test
	for _, n := range sortedKeys(cdrTypeRegistry) {
		ps := []string{"", "tagNum:3"}
		if n == "CHFRecord" {
			ps = []string{"explicit,choice", ""}
		}
		out = append(out, uType{"cdrType/" + n, cdrTypeRegistry[n], ps})
	}
	// generated struct types over the tag language
	ks := fieldKinds()
	for _, k := range ks {
		for _, tg := range genTags {
			for _, ex := range []bool{false, true} {
				t := reflect.StructOf([]reflect.StructField{mkField("A", k, tg, ex)})
				out = append(out, uType{fmt.Sprintf("gen1/%s/t%d/x%v", k.name, tg, ex), t, []string{""}})
			}
		}
	}
	for i, k1 := range ks {
		for j, k2 := range ks {
			if tier != "thorough" && (i+j)%3 != 0 && !(k1.opt || k2.opt) {
				continue
			}
			for _, ex := range []bool{false, true} {
				t := reflect.StructOf([]reflect.StructField{mkField("A", k1, 0, false), mkField("B", k2, 1, ex)})
				ps := []string{""}
				if ex {
					ps = []string{"set", "tagNum:2"}
				}
				out = append(out, uType{fmt.Sprintf("gen2/%s+%s/x%v", k1.name, k2.name, ex), t, ps})
			}
		}
	}
	// three members with one nested level: outer SEQUENCE { [0] k, [5] SEQUENCE { [0] k2 } OPTIONAL, [31] k }
	for i, k1 := range ks {
		for j, k2 := range ks {
			if (i*7+j)%5 != 0 && tier != "thorough" {
				continue
			}
			in := reflect.StructOf([]reflect.StructField{mkField("A", k2, 0, false)})
			t := reflect.StructOf([]reflect.StructField{mkField("A", k1, 0, false),
				{Name: "B", Type: reflect.PointerTo(in), Tag: `ber:"tagNum:5,optional"`}, mkField("C", k1, 31, true)})
			out = append(out, uType{fmt.Sprintf("gen3/%s(%s)", k1.name, k2.name), t, []string{""}})
		}
	}
	return
}

// ---------------------------------------------------------------------------------------
// quirks: named, positively recognisable deviations of the encoder from X.690 (known-finding rules)

type berCase struct {
	typ    uType
	param  string
	val    reflect.Value
	devs   []string
	got    []byte
	gotErr error
	gotPan string
}

func marshalSafe(v reflect.Value, param string) (b []byte, err error, pan string) {
	defer func() {
		if r := recover(); r != nil {
			pan = fmt.Sprint(r)
		}
	}()
	// marshal through a pointer, as the CHF does, and by value
	b, err = asn.BerMarshalWithParams(v.Interface(), param)
	return
}

func unmarshalSafe(b []byte, t reflect.Type, param string) (out reflect.Value, err error, pan string) {
	defer func() {
		if r := recover(); r != nil {
			pan = fmt.Sprint(r)
		}
	}()
	pv := reflect.New(t)
	err = asn.UnmarshalWithParams(b, pv.Interface(), param)
	return pv.Elem(), err, ""
}

func panicClass(p string) string {
	switch {
	case strings.Contains(p, "index out of range"):
		return "index-out-of-range"
	case strings.Contains(p, "slice bounds out of range"):
		return "slice-bounds"
	case strings.Contains(p, "nil pointer"):
		return "nil-dereference"
	case strings.Contains(p, "reflect"):
		return "reflect-misuse"
	}
	return "other"
}

func typeClass(name string) string {
	if i := strings.Index(name, "/"); i > 0 {
		return name[:i]
	}
	return name
}

func describeCase(c *berCase) string {
	return fmt.Sprintf("type %s params %q deviations %v", c.typ.Name, c.param, c.devs)
}

func hexHead(b []byte, n int) string {
	if len(b) > n {
		return hex.EncodeToString(b[:n]) + fmt.Sprintf("...(%d bytes)", len(b))
	}
	return hex.EncodeToString(b)
}

// firstDiff names where two encodings start to differ
func firstDiff(a, b []byte) string {
	n := min(len(a), len(b))
	i := 0
	for i < n && a[i] == b[i] {
		i++
	}
	lo := max(0, i-4)
	return fmt.Sprintf("first difference at offset %d: codec ...%s reference ...%s (lengths %d / %d)", i, hexHead(a[lo:], 12), hexHead(b[lo:], 12), len(a), len(b))
}

type berStats struct {
	Types      int            `json:"types"`
	Values     int            `json:"values"`
	Encoded    int            `json:"encoded"`  // values for which both sides produced bytes
	Rejected   int            `json:"rejected"` // values both sides rejected
	Distinct   int            `json:"distinct"` // distinct encodings seen (hash set size)
	RoundTrips int            `json:"roundTrips"`
	Finds      []Finding      `json:"finds"`
	Rules      map[string]int `json:"rules"`
	Samples    []string       `json:"samples"`
	Capped     []string       `json:"capped,omitempty"`
}

func (s *berStats) find(rule, detail string) {
	if s.Rules == nil {
		s.Rules = map[string]int{}
	}
	s.Rules[rule]++
	if s.Rules[rule] <= 3 {
		s.Finds = append(s.Finds, Finding{rule, detail})
	}
}

type berArgs struct {
	Check string `json:"check"` // C04 | C05
	Tier  string `json:"tier"`
	Part  int    `json:"part"`
	Parts int    `json:"parts"`
	K     int    `json:"k"`
	Cap   int    `json:"cap"` // per (type,param) value cap
}

// refEncodeQuirk: reference encoder with one named deviation switched on (classification of known defects)
var quirkNames = []string{"bitstring-unused-8-when-aligned", "string-universal-tag-only-from-params", "explicit-tagged-choice-double-wrap", "set-flag-inherited-by-elements"}

func berJob(t *testing.T, raw json.RawMessage) (any, error) {
	var a berArgs
	if err := json.Unmarshal(raw, &a); err != nil {
		return nil, err
	}
	st := &berStats{}
	seen := map[uint64]struct{}{}
	uni := universe(a.Tier)
	for ti, ut := range uni {
		if ti%a.Parts != a.Part {
			continue
		}
		st.Types++
		for _, param := range ut.Params {
			p := parseBerTag(param)
			n := 0
			capped := false
			Enumerate(a.K, func(c *Chooser) {}, func(c *Chooser) bool { return false }) // no-op keeps the import honest
			var cur reflect.Value
			build := func(c *Chooser) {
				b := &builder{c: c, maxDepth: 5, errCases: true, big: ut.Name == "prim/OctetString" || ut.Name == "prim/UTF8String" || ut.Name == "prim/IA5String"}
				cur = b.build(ut.T, p, "", 0)
			}
			// what a call returned belongs to the caller: the next call must not change it (nor what was decoded from it)
			var prevRef, prevCopy []byte
			var prevDesc string
			Enumerate(a.K, build, func(c *Chooser) bool {
				n++
				if a.Cap > 0 && n > a.Cap {
					capped = true
					return false
				}
				st.Values++
				cs := &berCase{typ: ut, param: param, val: cur, devs: c.Deviations()}
				cs.got, cs.gotErr, cs.gotPan = marshalSafe(cur, param)
				if prevRef != nil && !bytes.Equal(prevRef, prevCopy) {
					st.find("encoding-changed-by-a-later-call/"+typeClass(ut.Name), fmt.Sprintf("%s: the octets returned for it were %s and read %s after the next value had been marshalled", prevDesc, hexHead(prevCopy, 24), hexHead(prevRef, 24)))
				}
				prevRef, prevCopy, prevDesc = nil, nil, ""
				if cs.gotErr == nil && cs.gotPan == "" && len(cs.got) > 0 {
					prevRef, prevCopy, prevDesc = cs.got, append([]byte(nil), cs.got...), describeCase(cs)
				}
				checkEncode(st, cs, p, seen)
				if a.Check == "C05" && cs.gotPan == "" && cs.gotErr == nil {
					checkRoundTrip(st, cs)
				}
				if len(st.Samples) < 2 && len(cs.devs) == 2 && cs.gotErr == nil && cs.gotPan == "" {
					st.Samples = append(st.Samples, describeCase(cs)+" -> "+hexHead(cs.got, 40))
				}
				return true
			})
			if capped {
				st.Capped = append(st.Capped, fmt.Sprintf("%s %q", ut.Name, param))
			}
		}
	}
	st.Distinct = len(seen)
	return st, nil
}

func fnv(b []byte) uint64 {
	var h uint64 = 14695981039346656037
	for _, c := range b {
		h = (h ^ uint64(c)) * 1099511628211
	}
	return h
}

func checkEncode(st *berStats, cs *berCase, p berParams, seen map[uint64]struct{}) {
	want, refErr := refEncode(cs.val, p)
	tc := typeClass(cs.typ.Name)
	if cs.gotPan != "" {
		rule := "marshal-panic/" + panicClass(cs.gotPan)
		if refErr != nil {
			rule += "/on-unsupported-value"
		}
		st.find(rule, fmt.Sprintf("%s: BerMarshal panicked: %s", describeCase(cs), oneLine(cs.gotPan, 160)))
		return
	}
	if refErr != nil {
		if cs.gotErr == nil {
			st.find("no-error-for-unsupported/"+tc, fmt.Sprintf("%s: the reference rejects the value (%v) but the codec produced %s", describeCase(cs), refErr, hexHead(cs.got, 24)))
		} else {
			st.Rejected++
		}
		return
	}
	if cs.gotErr != nil {
		st.find("error-for-supported-value/"+tc, fmt.Sprintf("%s: codec error %q, reference encodes to %s", describeCase(cs), cs.gotErr, hexHead(want, 24)))
		return
	}
	st.Encoded++
	seen[fnv(cs.got)] = struct{}{}
	if bytes.Equal(cs.got, want) {
		if err := walkTLV(cs.got); err != nil {
			st.find("malformed-but-equal-to-reference", fmt.Sprintf("%s: %v", describeCase(cs), err))
		}
		return
	}
	werr := walkTLV(cs.got)
	// classify against the named quirks
	for qi := 0; qi < 1<<len(quirkNames); qi++ {
		if qi == 0 {
			continue
		}
		if b, err := refEncodeQ(cs.val, p, qi); err == nil && bytes.Equal(b, cs.got) {
			var names []string
			for i, n := range quirkNames {
				if qi&(1<<i) != 0 {
					names = append(names, n)
				}
			}
			d := fmt.Sprintf("%s: %s", describeCase(cs), firstDiff(cs.got, want))
			if werr != nil {
				d += fmt.Sprintf("; not well-formed: %v", werr)
			}
			for _, n := range names {
				st.find("encoder-quirk/"+n, d)
			}
			return
		}
	}
	d := fmt.Sprintf("%s: %s", describeCase(cs), firstDiff(cs.got, want))
	if werr != nil {
		st.find("malformed-encoding/"+tc, d+fmt.Sprintf("; walker: %v", werr))
	} else {
		st.find("differs-from-reference/"+tc, d)
	}
}

func checkRoundTrip(st *berStats, cs *berCase) {
	st.RoundTrips++
	back, err, pan := unmarshalSafe(cs.got, cs.typ.T, cs.param)
	tc := typeClass(cs.typ.Name)
	if pan != "" {
		st.find("unmarshal-panic/"+panicClass(pan)+"/"+rtClass(cs), fmt.Sprintf("%s: decoding its own encoding %s panicked: %s", describeCase(cs), hexHead(cs.got, 24), oneLine(pan, 160)))
		return
	}
	if err != nil {
		st.find("roundtrip-error/"+rtClass(cs), fmt.Sprintf("%s: decoding its own encoding %s failed: %v", describeCase(cs), hexHead(cs.got, 24), err))
		return
	}
	if !normEqual(cs.val, back) {
		st.find("roundtrip-differs/"+rtClass(cs), fmt.Sprintf("%s (%s): encoding %s decodes to a different value: %s", describeCase(cs), tc, hexHead(cs.got, 24), diffValues(cs.val, back, "")))
	}
}

// rtClass names the construct a round-trip finding is attributed to: the decoder's two known
// gaps (EXPLICIT tags are ignored; members/alternatives are matched by context tag number only)
// or "general" for everything else.
func rtClass(cs *berCase) string {
	p := parseBerTag(cs.param)
	feat := valueFeatures(cs.val, p, map[string]bool{})
	if p.explicit && p.tag != nil {
		feat["explicit-member"] = true
	}
	switch {
	case feat["explicit-member"]:
		return "explicit-member"
	case feat["untagged-member"]:
		return "untagged-member"
	}
	return "general"
}

// valueFeatures collects the features of a value that the known decoder defects key on.
func valueFeatures(v reflect.Value, p berParams, out map[string]bool) map[string]bool {
	if !v.IsValid() {
		return out
	}
	if v.Kind() == reflect.Ptr || v.Kind() == reflect.Interface {
		if !v.IsNil() {
			valueFeatures(v.Elem(), p, out)
		}
		return out
	}
	t := v.Type()
	switch {
	case t == asn.BitStringType, t == asn.OctetStringType:
	case t == asn.NullType:
		out["null"] = true
	case t == asn.EnumeratedType, v.Kind() == reflect.Int, v.Kind() == reflect.Int32, v.Kind() == reflect.Int64:
		if v.Int() < 0 {
			out["negative-integer"] = true
		}
	case v.Kind() == reflect.Struct && t.NumField() > 0:
		switch t.Field(0).Name {
		case "Value", "List":
			valueFeatures(v.Field(0), p, out)
		case "Present":
			pr := int(v.Field(0).Int())
			if pr > 0 && pr < t.NumField() {
				ap := parseBerTag(t.Field(pr).Tag.Get("ber"))
				if ap.tag == nil {
					out["untagged-member"] = true
				}
				if ap.explicit {
					out["explicit-member"] = true
				}
				valueFeatures(v.Field(pr), ap, out)
			}
		default:
			for i := 0; i < t.NumField(); i++ {
				fp := parseBerTag(t.Field(i).Tag.Get("ber"))
				if fp.tag == nil {
					out["untagged-member"] = true
				}
				if fp.explicit {
					out["explicit-member"] = true
				}
				valueFeatures(v.Field(i), fp, out)
			}
		}
	case v.Kind() == reflect.Slice:
		ep := p
		for i := 0; i < v.Len() && i < 3; i++ {
			valueFeatures(v.Index(i), ep, out)
		}
	}
	return out
}

func diffValues(a, b reflect.Value, path string) string {
	if !a.IsValid() || !b.IsValid() {
		return path + ": validity differs"
	}
	switch a.Kind() {
	case reflect.Ptr:
		if a.IsNil() != b.IsNil() {
			return fmt.Sprintf("%s: nil-ness differs (%v / %v)", path, a.IsNil(), b.IsNil())
		}
		if a.IsNil() {
			return ""
		}
		return diffValues(a.Elem(), b.Elem(), path)
	case reflect.Struct:
		for i := 0; i < a.NumField(); i++ {
			if d := diffValues(a.Field(i), b.Field(i), path+"."+a.Type().Field(i).Name); d != "" {
				return d
			}
		}
		return ""
	case reflect.Slice:
		if a.Len() != b.Len() {
			return fmt.Sprintf("%s: length %d / %d", path, a.Len(), b.Len())
		}
		for i := 0; i < a.Len(); i++ {
			if d := diffValues(a.Index(i), b.Index(i), fmt.Sprintf("%s[%d]", path, i)); d != "" {
				return d
			}
		}
		return ""
	}
	if !reflect.DeepEqual(a.Interface(), b.Interface()) {
		return fmt.Sprintf("%s: %s / %s", path, oneLine(fmt.Sprint(a.Interface()), 40), oneLine(fmt.Sprint(b.Interface()), 40))
	}
	return ""
}

func init() {
	jobHandlers["ber"] = berJob
	checks["C04"] = func(t *testing.T) int { return berCheck(t, "C04") }
	checks["C05"] = func(t *testing.T) int { return berCheck(t, "C05") }
}

func berCheck(t *testing.T, prop string) int {
	rep := NewReport(prop)
	pool := NewPool(0)
	parts := 64
	k, cp := 2, 4000
	if rep.Tier == "thorough" {
		k, cp, parts = 2, 60000, 128
	}
	var jobs []Job
	for i := 0; i < parts; i++ {
		jobs = append(jobs, Job{Kind: "ber", Check: prop, Args: mustJSON(berArgs{Check: prop, Tier: rep.Tier, Part: i, Parts: parts, K: k, Cap: cp})})
	}
	// exhaustive sub-spaces
	ranges := intRangeJobs(prop, rep.Tier)
	jobs = append(jobs, ranges...)
	total := berStats{Rules: map[string]int{}}
	exhaustive := true
	for i, r := range pool.RunAll(jobs) {
		if r.Crash != "" {
			rep.Finding("process-crash", "worker died in job "+fmt.Sprint(i)+": "+oneLine(r.Crash, 300), map[string]any{"job": jobs[i].Args})
			continue
		}
		if r.Err != "" {
			rep.EngineError(r.Err)
			exhaustive = false
			continue
		}
		var s berStats
		json.Unmarshal(r.Out, &s)
		total.Types += s.Types
		total.Values += s.Values
		total.Encoded += s.Encoded
		total.Rejected += s.Rejected
		total.Distinct += s.Distinct
		total.RoundTrips += s.RoundTrips
		total.Capped = append(total.Capped, s.Capped...)
		if len(total.Samples) < 5 {
			total.Samples = append(total.Samples, s.Samples...)
		}
		for k, v := range s.Rules {
			total.Rules[k] += v
		}
		for _, f := range s.Finds {
			rep.Finding(f.Rule, f.Detail, map[string]any{"job": json.RawMessage(jobs[i].Args), "case": f.Detail})
		}
	}
	if len(total.Capped) > 0 {
		exhaustive = false
	}
	rep.Cov["states"] = total.Values
	rep.Cov["transitions"] = total.Encoded + total.RoundTrips
	rep.Cov["traces_validated_against_impl"] = total.Values
	rep.Cov["evaluations"] = total.Values
	rep.Cov["distinct_nontrivial"] = total.Distinct
	rep.Cov["rule"] = "per (type, top-level params): base value + every single and every pair of deviations at the decision points met while building the value (leaf boundary alphabets, OPTIONAL present/absent, CHOICE alternative, list length, illegal Present / nil mandatory member), plus exhaustive integer/tag/length ranges; distinct = distinct encodings produced"
	rep.Cov["types"] = total.Types
	rep.Cov["values_encoded_by_both"] = total.Encoded
	rep.Cov["values_rejected_by_both"] = total.Rejected
	rep.Cov["round_trips"] = total.RoundTrips
	rep.Cov["deviation_bound"] = k
	rep.Cov["per_type_cap"] = cp
	rep.Cov["capped_types"] = total.Capped
	rep.Cov["exhaustive"] = exhaustive
	rep.Cov["finding_counts"] = total.Rules
	if len(total.Samples) == 0 {
		total.Samples = []string{"(no sample)"}
	}
	rep.Cov["samples"] = total.Samples
	rep.Assumptions = append(rep.Assumptions, "reference encoder and TLV walker written from X.690 interpret the `ber:` tag language and Value/List/Present conventions as documented by cdr/asn's own tests",
		"the state space of a pure function is its input space: every value inside the deviation bound is executed on the real codec")
	return rep.Finish()
}

// ---------------------------------------------------------------------------------------
// fully exhaustive sub-spaces: integer ranges, tag numbers, lengths

type rangeArgs struct {
	Check  string `json:"check"`
	What   string `json:"what"` // ints | tags | lens
	Lo, Hi int64
}

func intRangeJobs(prop, tier string) (jobs []Job) {
	add := func(what string, lo, hi, step int64) {
		for a := lo; a < hi; a += step {
			b := min(a+step, hi)
			jobs = append(jobs, Job{Kind: "berrange", Check: prop, Args: mustJSON(rangeArgs{prop, what, a, b})})
		}
	}
	if tier == "thorough" {
		add("ints", -(1 << 23), 1<<23, 1<<19)
		add("tags", 0, 1<<21+200, 1<<17)
		add("lens", 0, 70000, 5000)
	} else {
		add("ints", -(1 << 17), 1<<17, 1<<14)
		add("tags", 0, 40000, 5000)
		add("lens", 0, 1200, 300)
		add("lens", 65400, 65700, 300)
	}
	return
}

func init() {
	jobHandlers["berrange"] = func(t *testing.T, raw json.RawMessage) (any, error) {
		var a rangeArgs
		json.Unmarshal(raw, &a)
		st := &berStats{}
		seen := map[uint64]struct{}{}
		one := func(ut uType, param string, v reflect.Value) {
			st.Values++
			cs := &berCase{typ: ut, param: param, val: v, devs: []string{fmt.Sprint(oneLine(fmt.Sprint(v.Interface()), 30))}}
			cs.got, cs.gotErr, cs.gotPan = marshalSafe(v, param)
			checkEncode(st, cs, parseBerTag(param), seen)
			if a.Check == "C05" && cs.gotPan == "" && cs.gotErr == nil {
				checkRoundTrip(st, cs)
			}
		}
		switch a.What {
		case "ints":
			ui, ue := uType{"prim/int64", tInt64, nil}, uType{"prim/Enumerated", asn.EnumeratedType, nil}
			for x := a.Lo; x < a.Hi; x++ {
				one(ui, "", reflect.ValueOf(x))
				one(ue, "tagNum:1", reflect.ValueOf(asn.Enumerated(x)))
			}
			// 2^k, 2^k +/- 1 of both signs up to 64 bits (once, in the job that contains 0)
			if a.Lo <= 0 && 0 < a.Hi {
				for k := uint(0); k < 64; k++ {
					for _, d := range []int64{-1, 0, 1} {
						for _, sgn := range []int64{1, -1} {
							x := sgn*(int64(1)<<k) + d
							one(ui, "", reflect.ValueOf(x))
							one(ue, "", reflect.ValueOf(asn.Enumerated(x)))
						}
					}
				}
			}
		case "tags":
			ui := uType{"prim/int64", tInt64, nil}
			uo := uType{"prim/[]int64", reflect.SliceOf(tInt64), nil}
			for x := a.Lo; x < a.Hi; x++ {
				one(ui, fmt.Sprintf("tagNum:%d", x), reflect.ValueOf(int64(5)))
				if x%7 == 0 {
					one(uo, fmt.Sprintf("tagNum:%d,explicit", x), reflect.ValueOf([]int64{1}))
				}
			}
		case "lens":
			uo, us := uType{"prim/OctetString", asn.OctetStringType, nil}, uType{"prim/UTF8String", asn.UTF8StringType, nil}
			buf := make([]byte, a.Hi)
			for i := range buf {
				buf[i] = byte(i)
			}
			for n := a.Lo; n < a.Hi; n++ {
				one(uo, "", reflect.ValueOf(asn.OctetString(buf[:n])))
				if n%3 == 0 {
					one(us, "utf8,tagNum:40", reflect.ValueOf(asn.UTF8String(strings.Repeat("y", int(n)))))
				}
			}
		}
		st.Distinct = len(seen)
		st.Types = 2
		return st, nil
	}
}
