//go:build verif && go1.23

package zzverif

import (
	"bytes"
	"encoding/binary"
	"encoding/json"
	"fmt"
	"os"
	"path/filepath"
	"reflect"
	"testing"

	"github.com/free5gc/chf/cdr/cdrFile"
	"verif.local/vs/vos"
)

// C14 (round trip) and C15 (TS 32.297 clause 6.1 layout): bounded-exhaustive enumeration of
// well-formed CDR file structures against an independent reader written from the specification.

func pick[T any](c *Chooser, label string, alts ...T) T { return alts[c.Pick(len(alts), label)] }

// pickBase is pick with alternative `base` as the default (it is moved to the front).
func pickBase[T any](c *Chooser, label string, base int, alts ...T) T {
	if base > 0 && base < len(alts) {
		r := append([]T{alts[base]}, alts[:base]...)
		alts = append(r, alts[base+1:]...)
	}
	return alts[c.Pick(len(alts), label)]
}

func patBytes(n int, seed byte) []byte {
	b := make([]byte, n)
	for i := range b {
		b[i] = byte(i)*3 + seed
	}
	return b
}

func buildTS(c *Chooser, l string) cdrFile.CdrHdrTimeStamp {
	return cdrFile.CdrHdrTimeStamp{
		MonthLocal:                            pick[uint8](c, l+".month", 1, 0, 12, 14, 15),
		DateLocal:                             pick[uint8](c, l+".date", 1, 0, 30, 31),
		HourLocal:                             pick[uint8](c, l+".hour", 0, 1, 23, 30, 31),
		MinuteLocal:                           pick[uint8](c, l+".minute", 0, 1, 59, 62, 63),
		SignOfTheLocalTimeDifferentialFromUtc: pick[uint8](c, l+".sign", 1, 0),
		HourDeviation:                         pick[uint8](c, l+".hdev", 0, 1, 14, 30, 31),
		MinuteDeviation:                       pick[uint8](c, l+".mdev", 0, 1, 30, 31, 32, 45, 62, 63),
	}
}

// buildFile builds one well-formed CDRFile; length and count fields are derived from the content.
// With mixed the base structure is a heterogeneous file (high release identifier 7 with extension, low 3; three records:
// release 7 with a non-zero extension, release 0, release 7) so that single and pairwise deviations reach what
// depends on the relation between neighbouring records and between the two header identifiers.
func buildFile(c *Chooser, big bool, mixedOpt ...bool) cdrFile.CDRFile {
	mixed := len(mixedOpt) > 0 && mixedOpt[0]
	mb := func(i int) int {
		if mixed {
			return i
		}
		return 0
	}
	var f cdrFile.CDRFile
	h := &f.Hdr
	h.HighReleaseIdentifier = pickBase[uint8](c, "highRel", mb(7), 0, 1, 2, 3, 4, 5, 6, 7)
	h.HighVersionIdentifier = pick[uint8](c, "highVer", 0, 1, 30, 31)
	h.LowReleaseIdentifier = pickBase[uint8](c, "lowRel", mb(3), 0, 1, 2, 3, 4, 5, 6, 7)
	h.LowVersionIdentifier = pick[uint8](c, "lowVer", 0, 1, 30, 31)
	h.FileOpeningTimestamp = buildTS(c, "open")
	h.TimestampWhenLastCdrWasAppendedToFIle = buildTS(c, "last")
	h.FileSequenceNumber = pick[uint32](c, "fileSeq", 0, 1, 0x01020304, 1<<32-2, 1<<32-1)
	h.FileClosureTriggerReason = cdrFile.FileClosureTriggerReasonType(pick[uint8](c, "closure", 0, 1, 5, 128, 131, 255))
	switch c.Pick(3, "ip") {
	case 1:
		copy(h.IpAddressOfNodeThatGeneratedFile[:], patBytes(20, 1))
	case 2:
		for i := range h.IpAddressOfNodeThatGeneratedFile {
			h.IpAddressOfNodeThatGeneratedFile[i] = 0xff
		}
	}
	h.LostCdrIndicator = pick[uint8](c, "lost", 0, 1, 127, 128, 255)
	flens := []int{0, 1, 4, 255, 256}
	if big {
		flens = append(flens, 65485, 65486, 65535)
	}
	fl := pick(c, "filterLen", flens...)
	h.LengthOfCdrRouteingFilter = uint16(fl)
	h.CDRRouteingFilter = patBytes(fl, 7)
	pl := pick(c, "privLen", flens...)
	h.LengthOfPrivateExtension = uint16(pl)
	h.PrivateExtension = patBytes(pl, 9)
	if h.HighReleaseIdentifier == 7 {
		h.HighReleaseIdentifierExtension = pickBase[uint8](c, "highExt", mb(2), 0, 1, 5, 255)
	}
	if h.LowReleaseIdentifier == 7 {
		h.LowReleaseIdentifierExtension = pick[uint8](c, "lowExt", 0, 2, 6, 255)
	}
	nrec := pickBase(c, "records", mb(3), 1, 0, 2, 3)
	for i := 0; i < nrec; i++ {
		l := fmt.Sprintf("rec%d", i)
		var r cdrFile.CDR
		plens := []int{3, 0, 1, 255, 256}
		if big {
			plens = append(plens, 65535)
		}
		n := pick(c, l+".len", plens...)
		r.CdrByte = patBytes(n, byte(0x40+i))
		r.Hdr.CdrLength = uint16(n)
		relBase := 0
		if mixed && i != 1 {
			relBase = 7
		}
		r.Hdr.ReleaseIdentifier = cdrFile.ReleaseIdentifierType(pickBase[uint8](c, l+".rel", relBase, 0, 1, 2, 3, 4, 5, 6, 7))
		r.Hdr.VersionIdentifier = pick[uint8](c, l+".ver", 0, 1, 30, 31)
		r.Hdr.DataRecordFormat = cdrFile.DataRecordFormatType(pick[uint8](c, l+".fmt", 1, 2, 3, 4, 0, 7))
		r.Hdr.TsNumber = cdrFile.TsNumberIdentifier(pick[uint8](c, l+".ts", 0, 17, 24, 31))
		if r.Hdr.ReleaseIdentifier == 7 {
			r.Hdr.ReleaseIdentifierExtension = pickBase[uint8](c, l+".ext", mb(3), 0, 1, 255, 0xa5)
		}
		f.CdrList = append(f.CdrList, r)
	}
	hl := 52 + fl + pl
	if h.HighReleaseIdentifier == 7 {
		hl++
	}
	if h.LowReleaseIdentifier == 7 {
		hl++
	}
	h.HeaderLength = uint32(hl)
	total := hl
	for _, r := range f.CdrList {
		total += 4 + len(r.CdrByte)
		if r.Hdr.ReleaseIdentifier == 7 {
			total++
		}
	}
	h.FileLength = uint32(total)
	h.NumberOfCdrsInFile = uint32(len(f.CdrList))
	return f
}

// refReadFile is the independent TS 32.297 clause 6.1 reader (6.1.1 file header, 6.1.2 CDR header).
func refReadFile(b []byte) (f cdrFile.CDRFile, err error) {
	need := func(n int) error {
		if len(b) < n {
			return fmt.Errorf("file too short: need %d octets, have %d", n, len(b))
		}
		return nil
	}
	if err = need(52); err != nil {
		return
	}
	h := &f.Hdr
	h.FileLength = binary.BigEndian.Uint32(b[0:])
	h.HeaderLength = binary.BigEndian.Uint32(b[4:])
	h.HighReleaseIdentifier, h.HighVersionIdentifier = b[8]>>5, b[8]&0x1f
	h.LowReleaseIdentifier, h.LowVersionIdentifier = b[9]>>5, b[9]&0x1f
	ts := func(x uint32) cdrFile.CdrHdrTimeStamp {
		return cdrFile.CdrHdrTimeStamp{MonthLocal: uint8(x >> 28), DateLocal: uint8(x >> 23 & 31), HourLocal: uint8(x >> 18 & 31), MinuteLocal: uint8(x >> 12 & 63),
			SignOfTheLocalTimeDifferentialFromUtc: uint8(x >> 11 & 1), HourDeviation: uint8(x >> 6 & 31), MinuteDeviation: uint8(x & 63)}
	}
	h.FileOpeningTimestamp = ts(binary.BigEndian.Uint32(b[10:]))
	h.TimestampWhenLastCdrWasAppendedToFIle = ts(binary.BigEndian.Uint32(b[14:]))
	h.NumberOfCdrsInFile = binary.BigEndian.Uint32(b[18:])
	h.FileSequenceNumber = binary.BigEndian.Uint32(b[22:])
	h.FileClosureTriggerReason = cdrFile.FileClosureTriggerReasonType(b[26])
	copy(h.IpAddressOfNodeThatGeneratedFile[:], b[27:47])
	h.LostCdrIndicator = b[47]
	h.LengthOfCdrRouteingFilter = binary.BigEndian.Uint16(b[48:])
	p := 50
	if err = need(p + int(h.LengthOfCdrRouteingFilter) + 2); err != nil {
		return
	}
	h.CDRRouteingFilter = b[p : p+int(h.LengthOfCdrRouteingFilter)]
	p += int(h.LengthOfCdrRouteingFilter)
	h.LengthOfPrivateExtension = binary.BigEndian.Uint16(b[p:])
	p += 2
	if err = need(p + int(h.LengthOfPrivateExtension)); err != nil {
		return
	}
	h.PrivateExtension = b[p : p+int(h.LengthOfPrivateExtension)]
	p += int(h.LengthOfPrivateExtension)
	if h.HighReleaseIdentifier == 7 {
		if err = need(p + 1); err != nil {
			return
		}
		h.HighReleaseIdentifierExtension = b[p]
		p++
	}
	if h.LowReleaseIdentifier == 7 {
		if err = need(p + 1); err != nil {
			return
		}
		h.LowReleaseIdentifierExtension = b[p]
		p++
	}
	if uint32(p) != h.HeaderLength {
		return f, fmt.Errorf("header length field %d but the header occupies %d octets", h.HeaderLength, p)
	}
	for i := uint32(0); i < h.NumberOfCdrsInFile; i++ {
		if err = need(p + 4); err != nil {
			return f, fmt.Errorf("record %d: %v", i, err)
		}
		var r cdrFile.CDR
		r.Hdr.CdrLength = binary.BigEndian.Uint16(b[p:])
		r.Hdr.ReleaseIdentifier = cdrFile.ReleaseIdentifierType(b[p+2] >> 5)
		r.Hdr.VersionIdentifier = b[p+2] & 0x1f
		r.Hdr.DataRecordFormat = cdrFile.DataRecordFormatType(b[p+3] >> 5)
		r.Hdr.TsNumber = cdrFile.TsNumberIdentifier(b[p+3] & 0x1f)
		p += 4
		if r.Hdr.ReleaseIdentifier == 7 {
			if err = need(p + 1); err != nil {
				return
			}
			r.Hdr.ReleaseIdentifierExtension = b[p]
			p++
		}
		if err = need(p + int(r.Hdr.CdrLength)); err != nil {
			return f, fmt.Errorf("record %d payload: %v", i, err)
		}
		r.CdrByte = b[p : p+int(r.Hdr.CdrLength)]
		p += int(r.Hdr.CdrLength)
		f.CdrList = append(f.CdrList, r)
	}
	if p != len(b) {
		return f, fmt.Errorf("%d octets after the last record", len(b)-p)
	}
	if uint32(len(b)) != h.FileLength {
		return f, fmt.Errorf("file length field %d but the file has %d octets", h.FileLength, len(b))
	}
	return f, nil
}

func fileEqual(a, b cdrFile.CDRFile) string {
	return diffValues(reflect.ValueOf(normFile(a)), reflect.ValueOf(normFile(b)), "file")
}

func normFile(f cdrFile.CDRFile) cdrFile.CDRFile {
	if len(f.Hdr.CDRRouteingFilter) == 0 {
		f.Hdr.CDRRouteingFilter = nil
	}
	if len(f.Hdr.PrivateExtension) == 0 {
		f.Hdr.PrivateExtension = nil
	}
	out := f
	out.CdrList = nil
	for _, r := range f.CdrList {
		if len(r.CdrByte) == 0 {
			r.CdrByte = nil
		}
		out.CdrList = append(out.CdrList, r)
	}
	return out
}

type cfArgs struct {
	Check string `json:"check"`
	Part  int    `json:"part"`
	Parts int    `json:"parts"`
	K     int    `json:"k"`
	Big   bool   `json:"big"`
	Real  bool   `json:"real"`
	Mixed bool   `json:"mixed,omitempty"`
}

type cfStats struct {
	Cases    int            `json:"cases"`
	Done     int            `json:"done"`
	Distinct int            `json:"distinct"`
	Finds    []Finding      `json:"finds"`
	Rules    map[string]int `json:"rules"`
	Samples  []string       `json:"samples"`
}

func (s *cfStats) find(rule, detail string) {
	if s.Rules == nil {
		s.Rules = map[string]int{}
	}
	s.Rules[rule]++
	if s.Rules[rule] <= 3 {
		s.Finds = append(s.Finds, Finding{rule, detail})
	}
}

func encodeFileSafe(f cdrFile.CDRFile, name string) (data []byte, pan string) {
	defer func() {
		if r := recover(); r != nil {
			pan = fmt.Sprint(r)
		}
	}()
	f.Encoding(name)
	if vos.Real {
		data, _ = os.ReadFile(name)
	} else {
		data = vos.Files[name]
	}
	return
}

func decodeFileSafe(name string) (f cdrFile.CDRFile, pan string) {
	defer func() {
		if r := recover(); r != nil {
			pan = fmt.Sprint(r)
		}
	}()
	f.Decoding(name)
	return
}

// devClass names the header features a finding is attributed to (for known-finding rules)
func cfClass(f cdrFile.CDRFile) string {
	h := f.Hdr
	switch {
	case h.LowReleaseIdentifier == 7 && h.HighReleaseIdentifier != 7:
		return "low-release-7-without-high-7"
	case int(h.LengthOfCdrRouteingFilter)+int(h.LengthOfPrivateExtension) > 65483:
		return "filter-plus-extension-over-65483"
	}
	return "general"
}

func cdrFileJob(t *testing.T, raw json.RawMessage) (any, error) {
	var a cfArgs
	json.Unmarshal(raw, &a)
	st := &cfStats{}
	seen := map[uint64]struct{}{}
	dir := "/tmp"
	vos.Real = a.Real
	if a.Real {
		dir = filepath.Join(verifDir, ".work", fmt.Sprintf("cdrfile-%d", os.Getpid()))
		os.MkdirAll(dir, 0o755)
		defer os.RemoveAll(dir)
	}
	defer func() { vos.Real = false }()
	name := filepath.Join(dir, "verif-c14.cdr")
	var cur cdrFile.CDRFile
	idx := 0
	Enumerate(a.K, func(c *Chooser) { cur = buildFile(c, a.Big, a.Mixed) }, func(c *Chooser) bool {
		idx++
		st.Cases++
		if idx%a.Parts != a.Part {
			return true
		}
		st.Done++
		f := cur
		desc := fmt.Sprintf("deviations %v", c.Deviations())
		data, pan := encodeFileSafe(f, name)
		if pan != "" {
			st.find("encoding-panic/"+cfClass(f), desc+": Encoding panicked: "+oneLine(pan, 120))
			return true
		}
		seen[fnv(data)] = struct{}{}
		if a.Check == "C15" {
			got, err := refReadFile(data)
			if err != nil {
				st.find("layout/"+cfClass(f), desc+": independent TS 32.297 reader: "+err.Error())
			} else if d := fileEqual(f, got); d != "" {
				st.find("layout-field/"+cfClass(f), desc+": independent reader recovers a different structure: "+d)
			}
			if len(st.Samples) < 2 && len(c.Deviations()) == 2 {
				st.Samples = append(st.Samples, desc+" -> "+hexHead(data, 60))
			}
			return true
		}
		back, pan := decodeFileSafe(name)
		if pan != "" {
			st.find("decoding-panic/"+cfClass(f), desc+": Decoding of the file just written panicked: "+oneLine(pan, 120))
			return true
		}
		if d := fileEqual(f, back); d != "" {
			st.find("roundtrip-differs/"+cfClass(f), desc+": "+d)
		}
		if len(st.Samples) < 2 && len(c.Deviations()) == 2 {
			st.Samples = append(st.Samples, desc+fmt.Sprintf(" -> %d octets, %d records", len(data), len(f.CdrList)))
		}
		return true
	})
	st.Distinct = len(seen)
	return st, nil
}

func init() {
	jobHandlers["cdrfile"] = cdrFileJob
	run := func(prop string) func(t *testing.T) int {
		return func(t *testing.T) int {
			rep := NewReport(prop)
			pool := NewPool(0)
			parts := 32
			var jobs []Job
			k := 2
			for i := 0; i < parts; i++ {
				jobs = append(jobs, Job{Kind: "cdrfile", Args: mustJSON(cfArgs{Check: prop, Part: i, Parts: parts, K: k, Big: true})})
				jobs = append(jobs, Job{Kind: "cdrfile", Args: mustJSON(cfArgs{Check: prop, Part: i, Parts: parts, K: k, Big: true, Mixed: true})})
			}
			if rep.Tier == "thorough" {
				// three deviations without the 64 KiB alternatives, and pairs again through the real file system
				for i := 0; i < 64; i++ {
					jobs = append(jobs, Job{Kind: "cdrfile", Args: mustJSON(cfArgs{Check: prop, Part: i, Parts: 64, K: 3, Big: false})})
					jobs = append(jobs, Job{Kind: "cdrfile", Args: mustJSON(cfArgs{Check: prop, Part: i, Parts: 64, K: 3, Big: false, Mixed: true})})
				}
			}
			if prop == "C14" {
				jobs = append(jobs, Job{Kind: "cdrfile", Args: mustJSON(cfArgs{Check: prop, Part: 0, Parts: 8, K: 2, Big: false, Real: true})})
			}
			total := cfStats{Rules: map[string]int{}}
			exhaustive := true
			for i, r := range pool.RunAll(jobs) {
				if r.Crash != "" || r.Err != "" {
					rep.EngineError(r.Crash + r.Err)
					exhaustive = false
					continue
				}
				var s cfStats
				json.Unmarshal(r.Out, &s)
				total.Done += s.Done
				total.Distinct += s.Distinct
				if len(total.Samples) < 4 {
					total.Samples = append(total.Samples, s.Samples...)
				}
				for k, v := range s.Rules {
					total.Rules[k] += v
				}
				for _, f := range s.Finds {
					rep.Finding(f.Rule, f.Detail, map[string]any{"job": json.RawMessage(jobs[i].Args), "case": f.Detail})
				}
			}
			rep.Cov["states"] = total.Done
			rep.Cov["transitions"] = total.Done
			rep.Cov["traces_validated_against_impl"] = total.Done
			rep.Cov["evaluations"] = total.Done
			rep.Cov["distinct_nontrivial"] = total.Distinct
			rep.Cov["rule"] = "well-formed CDR file structures, from two base structures (a homogeneous one: release identifiers 0, one record; a heterogeneous one: high release identifier 7 with extension, low 3, three records of release 7+extension / 0 / 7): base + all single + all pairs of deviations over release identifiers 0..7 (all 64 combinations), version identifiers, every timestamp sub-field at its width boundaries, sequence number, closure reason, node address, lost-CDR indicator, routeing filter / private extension lengths {0,1,4,255,256,65485,65486,65535}, extension octets, 0..3 records with payload lengths {0,1,3,255,256,65535}, per-record release 0..7, version, format, TS number, extension; thorough adds triples; distinct = distinct file encodings"
			rep.Cov["deviation_bound"] = k
			rep.Cov["exhaustive"] = exhaustive
			rep.Cov["finding_counts"] = total.Rules
			if len(total.Samples) == 0 {
				total.Samples = []string{"(none)"}
			}
			rep.Cov["samples"] = total.Samples
			rep.Assumptions = append(rep.Assumptions, "independent reader written from TS 32.297 clause 6.1.1/6.1.2 (field offsets and bit positions as in the clause)", "files go through the in-memory file table; C14 additionally repeats a subset through the real file system")
			return rep.Finish()
		}
	}
	checks["C14"] = run("C14")
	checks["C15"] = run("C15")
	_ = bytes.Equal
}
