//go:build verif && go1.23

package zzverif

// Independent BER reference for C04/C05/C16: an encoder written from X.690 (clauses 8.1-8.14)
// that interprets the same `ber:` struct-tag language and Value/List/Present conventions as
// cdr/asn, a generic definite-length TLV walker, and a bounded value builder.

import (
	"errors"
	"fmt"
	"math"
	"reflect"
	"strconv"
	"strings"

	"github.com/free5gc/chf/cdr/asn"
)

type berParams struct {
	tag      *uint64
	optional bool
	explicit bool
	set      bool
	choice   bool
	openType bool
	strTag   int
	raw      string
}

func parseBerTag(s string) (p berParams) {
	p.raw = s
	for _, part := range strings.Split(s, ",") {
		part = strings.TrimSpace(part)
		switch {
		case part == "optional":
			p.optional = true
		case strings.HasPrefix(part, "tagNum:"):
			if n, err := strconv.ParseUint(part[7:], 10, 64); err == nil {
				p.tag = &n
			}
		case part == "explicit":
			p.explicit = true
		case part == "set":
			p.set = true
		case part == "choice":
			p.choice = true
		case part == "openType":
			p.openType = true
		case part == "utf8":
			p.strTag = 12
		case part == "ia5":
			p.strTag = 22
		case part == "graphic":
			p.strTag = 25
		}
	}
	return
}

// refQuirk: bit mask of named encoder deviations the reference reproduces (classification only)
var refQuirk int

const (
	qBitString8 = 1 << iota
	qStringTag
	qExplicitChoice
	qSetElems
)

func refEncodeQ(v reflect.Value, p berParams, q int) ([]byte, error) {
	refQuirk = q
	defer func() { refQuirk = 0 }()
	return refEncode(v, p)
}

var errRefUnsupported = errors.New("reference: construct not supported by the codec (error expected)")

// X.690 8.1.2: identifier octets; 8.1.3: definite length, minimal number of octets.
func refHeader(class int, constructed bool, tag uint64, length int) []byte {
	b := byte(class << 6)
	if constructed {
		b |= 0x20
	}
	var out []byte
	if tag < 31 {
		out = append(out, b|byte(tag))
	} else {
		out = append(out, b|0x1f)
		var tmp []byte
		for t := tag; ; t >>= 7 {
			tmp = append([]byte{byte(t & 0x7f)}, tmp...)
			if t < 128 {
				break
			}
		}
		for i := 0; i < len(tmp)-1; i++ {
			tmp[i] |= 0x80
		}
		out = append(out, tmp...)
	}
	if length < 128 {
		return append(out, byte(length))
	}
	var l []byte
	for n := length; n > 0; n >>= 8 {
		l = append([]byte{byte(n)}, l...)
	}
	out = append(out, 0x80|byte(len(l)))
	return append(out, l...)
}

// X.690 8.3: two's complement, smallest number of octets.
func refInt(v int64) []byte {
	n := 1
	for x := v; x > 127 || x < -128; x >>= 8 {
		n++
	}
	out := make([]byte, n)
	for i := n - 1; i >= 0; i-- {
		out[i] = byte(v)
		v >>= 8
	}
	return out
}

type refTLV struct {
	class       int
	constructed bool
	tag         uint64
	content     []byte
}

func (t refTLV) bytes() []byte {
	return append(refHeader(t.class, t.constructed, t.tag, len(t.content)), t.content...)
}

func refEncode(v reflect.Value, p berParams) ([]byte, error) {
	t, err := refEncodeTLV(v, p)
	if err != nil {
		return nil, err
	}
	return t.bytes(), nil
}

func refEncodeTLV(v reflect.Value, p berParams) (out refTLV, err error) {
	if !v.IsValid() {
		return out, errors.New("reference: nil value")
	}
	if v.Kind() == reflect.Interface || v.Kind() == reflect.Ptr {
		if v.IsNil() {
			return out, errors.New("reference: nil value")
		}
		return refEncodeTLV(v.Elem(), p)
	}
	t := v.Type()
	switch {
	case t == asn.BitStringType:
		bs := v.Interface().(asn.BitString)
		if need := bs.BitLength/8 + (bs.BitLength%8+7)/8; uint64(len(bs.Bytes)) != need { // (no overflow near 2^64)
			// not a bit string value: the octets given do not hold BitLength bits (X.690 8.6.2: the unused-bits count refers
			// to the last of exactly ceil(bits / 8) subsequent octets)
			return out, errRefUnsupported
		}
		unused := byte((8 - bs.BitLength%8) % 8)
		if refQuirk&qBitString8 != 0 && unused == 0 {
			unused = 8
		}
		out = refTLV{0, false, 3, append([]byte{unused}, bs.Bytes...)}
	case t == asn.ObjectIdentifierType:
		return out, errRefUnsupported
	case t == asn.OctetStringType:
		out = refTLV{0, false, 4, append([]byte(nil), v.Bytes()...)}
	case t == asn.EnumeratedType:
		out = refTLV{0, false, 10, refInt(v.Int())}
	case t == asn.NullType:
		out = refTLV{0, false, 5, nil}
	case v.Kind() == reflect.Bool:
		c := byte(0)
		if v.Bool() {
			c = 0xff
		}
		out = refTLV{0, false, 1, []byte{c}}
	case v.Kind() == reflect.Int || v.Kind() == reflect.Int32 || v.Kind() == reflect.Int64:
		out = refTLV{0, false, 2, refInt(v.Int())}
	case v.Kind() == reflect.String:
		st := p.strTag
		switch t {
		case asn.UTF8StringType:
			st = 12
		case asn.IA5StringType:
			st = 22
		case asn.GraphicStringType:
			st = 25
		}
		if refQuirk&qStringTag != 0 {
			st = p.strTag
		} else if st == 0 {
			return out, errors.New("reference: character string without a declared string type")
		}
		out = refTLV{0, false, uint64(st), []byte(v.String())}
	case v.Kind() == reflect.Struct:
		if t.NumField() == 0 {
			return out, errors.New("reference: empty struct")
		}
		switch t.Field(0).Name {
		case "Value", "List":
			return refEncodeTLV(v.Field(0), p)
		case "Present":
			present := int(v.Field(0).Int())
			if present <= 0 || present >= t.NumField() || p.openType {
				return out, errRefUnsupported
			}
			alt, err := refEncode(v.Field(present), parseBerTag(t.Field(present).Tag.Get("ber")))
			if err != nil {
				return out, err
			}
			if p.tag == nil {
				// a CHOICE is encoded as its selected alternative (X.690 8.13)
				return refParse1(alt), nil
			}
			// tagging a CHOICE is always explicit (X.680 31.2.7): [n] constructed around the alternative
			if refQuirk&qExplicitChoice != 0 && p.explicit {
				return refTLV{2, true, *p.tag, refTLV{0, true, 0, alt}.bytes()}, nil
			}
			return refTLV{2, true, *p.tag, alt}, nil
		default:
			var content []byte
			for i := 0; i < t.NumField(); i++ {
				fp := parseBerTag(t.Field(i).Tag.Get("ber"))
				f := v.Field(i)
				if fp.optional && (f.Kind() == reflect.Ptr || f.Kind() == reflect.Slice || f.Kind() == reflect.Interface) && f.IsNil() {
					continue
				}
				if fp.openType {
					return out, errRefUnsupported
				}
				b, err := refEncode(f, fp)
				if err != nil {
					return out, err
				}
				content = append(content, b...)
			}
			tag := uint64(16)
			if p.set {
				tag = 17
			}
			out = refTLV{0, true, tag, content}
		}
	case v.Kind() == reflect.Slice:
		var content []byte
		ep := p
		ep.tag = nil
		if refQuirk&qSetElems == 0 {
			ep.set = false // SET OF X: the elements keep their own type
		}
		for i := 0; i < v.Len(); i++ {
			b, err := refEncode(v.Index(i), ep)
			if err != nil {
				return out, err
			}
			content = append(content, b...)
		}
		tag := uint64(16)
		if p.set {
			tag = 17
		}
		out = refTLV{0, true, tag, content}
	default:
		return out, fmt.Errorf("reference: unsupported kind %s", v.Kind())
	}
	if p.tag != nil {
		if p.explicit {
			return refTLV{2, true, *p.tag, out.bytes()}, nil
		}
		out.class, out.tag = 2, *p.tag
	}
	return out, nil
}

// refParse1 re-reads exactly one TLV produced by refEncode (used to return a CHOICE alternative as TLV).
func refParse1(b []byte) refTLV {
	t, hl, _ := parseHeader(b)
	t.content = b[hl:]
	return t
}

// parseHeader is the walker's header parser: strict about minimal forms.
func parseHeader(b []byte) (t refTLV, hlen int, err error) {
	if len(b) < 2 {
		return t, 0, errors.New("truncated header")
	}
	t.class = int(b[0] >> 6)
	t.constructed = b[0]&0x20 != 0
	i := 1
	if b[0]&0x1f != 0x1f {
		t.tag = uint64(b[0] & 0x1f)
	} else {
		if b[i] == 0x80 {
			return t, 0, errors.New("tag number with leading zero septet")
		}
		for {
			if i >= len(b) {
				return t, 0, errors.New("truncated tag number")
			}
			if t.tag > 1<<56 {
				return t, 0, errors.New("tag number too large")
			}
			t.tag = t.tag<<7 | uint64(b[i]&0x7f)
			i++
			if b[i-1]&0x80 == 0 {
				break
			}
		}
		if t.tag < 31 {
			return t, 0, errors.New("high-tag-number form used for tag < 31")
		}
	}
	if i >= len(b) {
		return t, 0, errors.New("truncated length")
	}
	var length int
	if b[i] < 128 {
		length = int(b[i])
		i++
	} else {
		n := int(b[i] & 0x7f)
		i++
		if n == 0 {
			return t, 0, errors.New("indefinite length")
		}
		if n > 4 || i+n > len(b) {
			return t, 0, errors.New("bad long-form length")
		}
		if b[i] == 0 {
			return t, 0, errors.New("length with leading zero octet")
		}
		for k := 0; k < n; k++ {
			length = length<<8 | int(b[i+k])
		}
		if length < 128 {
			return t, 0, errors.New("long form used for length < 128")
		}
		i += n
	}
	if i+length > len(b) {
		return t, 0, fmt.Errorf("length %d exceeds available %d", length, len(b)-i)
	}
	t.content = b[i : i+length]
	return t, i, nil
}

// walkTLV checks that b is exactly one well-formed definite-length BER element (recursively).
func walkTLV(b []byte) error {
	n, err := walkOne(b, 0)
	if err != nil {
		return err
	}
	if n != len(b) {
		return fmt.Errorf("%d trailing bytes after the element", len(b)-n)
	}
	return nil
}

func walkOne(b []byte, depth int) (int, error) {
	if depth > 64 {
		return 0, errors.New("nesting too deep")
	}
	t, hl, err := parseHeader(b)
	if err != nil {
		return 0, err
	}
	c := t.content
	if t.constructed {
		for off := 0; off < len(c); {
			n, err := walkOne(c[off:], depth+1)
			if err != nil {
				return 0, fmt.Errorf("in [class %d tag %d]: %w", t.class, t.tag, err)
			}
			off += n
		}
	} else if t.class == 0 {
		switch t.tag {
		case 0:
			return 0, errors.New("universal tag 0 (reserved)")
		case 1:
			if len(c) != 1 || (c[0] != 0 && c[0] != 0xff) {
				return 0, fmt.Errorf("BOOLEAN content % x", c)
			}
		case 2, 10:
			if len(c) == 0 {
				return 0, errors.New("INTEGER/ENUMERATED with empty content")
			}
			if len(c) > 1 && ((c[0] == 0 && c[1]&0x80 == 0) || (c[0] == 0xff && c[1]&0x80 != 0)) {
				return 0, fmt.Errorf("INTEGER/ENUMERATED not minimal: % x", c)
			}
		case 3:
			if len(c) == 0 || c[0] > 7 || (len(c) == 1 && c[0] != 0) {
				return 0, fmt.Errorf("BIT STRING unused-bits octet invalid: % x", c[:min(len(c), 4)])
			}
		case 5:
			if len(c) != 0 {
				return 0, errors.New("NULL with content")
			}
		case 16, 17:
			return 0, errors.New("SEQUENCE/SET not constructed")
		}
	}
	if t.class == 0 && t.constructed && t.tag != 16 && t.tag != 17 {
		return 0, fmt.Errorf("universal tag %d constructed", t.tag)
	}
	return hl + len(c), nil
}

// ---------------------------------------------------------------------------------------
// bounded value builder

var intAlphabet = func() []int64 {
	v := []int64{0, 1, -1, 127, 128, -128, -129, 255, 256, -255, -256, 32767, 32768, -32768, -32769, 65535, 65536,
		8388607, 8388608, -8388608, -8388609, 1<<31 - 1, 1 << 31, -(1 << 31), -(1 << 31) - 1, 1<<32 - 1, 1 << 32,
		1<<39 - 1, 1 << 39, -(1 << 39), -(1 << 39) - 1, 1<<47 - 1, 1 << 47, -(1 << 47) - 1, 1<<55 - 1, 1 << 55, -(1 << 55), -(1 << 55) - 1,
		1<<63 - 1, -(1 << 63), -(1 << 63) + 1, 200}
	return v
}()

var strLens = []int{2, 0, 1, 127, 128, 255, 256, 65535, 65536}

var bitAlphabet = []asn.BitString{
	{Bytes: []byte{0x80}, BitLength: 1}, {Bytes: []byte{}, BitLength: 0}, {Bytes: []byte{0xfe}, BitLength: 7}, {Bytes: []byte{0xa5}, BitLength: 8},
	{Bytes: []byte{0xff, 0x80}, BitLength: 9}, {Bytes: []byte{0xff, 0xfe}, BitLength: 15}, {Bytes: []byte{0x12, 0x34}, BitLength: 16},
	{Bytes: []byte{1, 2, 0x80}, BitLength: 17}, {Bytes: make([]byte, 32), BitLength: 256}, {Bytes: make([]byte, 200), BitLength: 1597},
	// padding bits that are not zero (BER leaves them to the sender; what was marshalled must come back)
	{Bytes: []byte{0xff}, BitLength: 1}, {Bytes: []byte{0xff, 0xff}, BitLength: 9},
	// BitLength and octets that disagree: not a value, must be refused
	{Bytes: nil, BitLength: 3}, {Bytes: []byte{0xf0}, BitLength: 20}, {Bytes: []byte{1, 2}, BitLength: 0}, {Bytes: []byte{1, 2}, BitLength: 3},
	{Bytes: nil, BitLength: math.MaxUint64}, {Bytes: nil, BitLength: math.MaxUint64 - 6}, {Bytes: []byte{1}, BitLength: math.MaxUint64 - 2},
}

type builder struct {
	c        *Chooser
	maxDepth int
	small    bool // small alphabets (used inside long lists / deep nesting)
	errCases bool // include values the codec must reject (nil mandatory members, bad Present)
	big      bool // top-level strings: also lengths that need four length octets (2^24 and neighbours)
}

// lens: the string / octet string lengths tried at one leaf
func (b *builder) lens() []int {
	if b.big {
		return append(append([]int(nil), strLens...), 1<<24-1, 1<<24, 1<<24+1)
	}
	return strLens
}

func (b *builder) str(n int) string { return strings.Repeat("x", n) }

func (b *builder) build(t reflect.Type, p berParams, path string, depth int) reflect.Value {
	v := reflect.New(t).Elem()
	switch {
	case t == asn.BitStringType:
		v.Set(reflect.ValueOf(bitAlphabet[b.c.Pick(len(bitAlphabet), path)]))
	case t == asn.ObjectIdentifierType:
		v.Set(reflect.ValueOf(asn.ObjectIdentifier{0x2a, 0x03}))
	case t == asn.OctetStringType:
		ls := b.lens()
		n := ls[b.c.Pick(len(ls), path)]
		o := make(asn.OctetString, n)
		for i := range o {
			o[i] = byte(i*7 + 1)
		}
		v.Set(reflect.ValueOf(o))
	case t == asn.NullType:
		v.SetBool(true)
	case t.Kind() == reflect.Bool:
		v.SetBool(b.c.Pick(2, path) == 1)
	case t.Kind() == reflect.Int || t.Kind() == reflect.Int64 || t.Kind() == reflect.Int32:
		x := intAlphabet[b.c.Pick(len(intAlphabet), path)]
		if t.Kind() == reflect.Int32 && (x > 1<<31-1 || x < -(1<<31)) {
			x = x >> 33
		}
		v.SetInt(x)
	case t.Kind() == reflect.String:
		ls := b.lens()
		v.SetString(b.str(ls[b.c.Pick(len(ls), path)]))
	case t.Kind() == reflect.Ptr:
		if depth > b.maxDepth {
			return v // nil
		}
		if p.optional {
			if b.c.Pick(2, path+"?") == 0 {
				return v
			}
		} else if b.errCases && b.c.Pick(2, path+"!nil") == 1 {
			return v
		}
		pv := reflect.New(t.Elem())
		pv.Elem().Set(b.build(t.Elem(), p, path, depth+1))
		v.Set(pv)
	case t.Kind() == reflect.Slice:
		lens := []int{1, 0, 2, 128}
		if p.optional {
			lens = []int{-1, 0, 1, 2, 128}
		}
		if depth > b.maxDepth {
			if p.optional {
				return v
			}
			v.Set(reflect.MakeSlice(t, 0, 0))
			return v
		}
		n := lens[b.c.Pick(len(lens), path+"#")]
		if n < 0 {
			return v
		}
		s := reflect.MakeSlice(t, n, n)
		ep := p
		ep.tag = nil
		ep.optional = false
		for i := 0; i < n; i++ {
			if i >= 2 {
				b.c.Freeze()
			}
			s.Index(i).Set(b.build(t.Elem(), ep, fmt.Sprintf("%s[%d]", path, i), depth+1))
			if i >= 2 {
				b.c.Unfreeze()
			}
		}
		v.Set(s)
	case t.Kind() == reflect.Struct:
		if t.NumField() == 0 {
			return v
		}
		switch t.Field(0).Name {
		case "Value", "List":
			v.Field(0).Set(b.build(t.Field(0).Type, p, path+"."+t.Field(0).Name, depth))
			return v
		case "Present":
			nalt := t.NumField() - 1
			if nalt == 0 {
				return v // open type placeholder: Present stays 0
			}
			extra := 0
			if b.errCases {
				extra = 3 // Present=0, Present=NumField, Present=1 with nil alternative
			}
			k := b.c.Pick(nalt+extra, path+"|")
			switch {
			case k < nalt:
				v.Field(0).SetInt(int64(k + 1))
				f := v.Field(k + 1)
				fp := parseBerTag(t.Field(k + 1).Tag.Get("ber"))
				if f.Kind() == reflect.Ptr {
					pv := reflect.New(f.Type().Elem())
					pv.Elem().Set(b.build(f.Type().Elem(), fp, path+"."+t.Field(k+1).Name, depth+1))
					f.Set(pv)
				} else {
					f.Set(b.build(f.Type(), fp, path+"."+t.Field(k+1).Name, depth+1))
				}
			case k == nalt:
				v.Field(0).SetInt(0)
			case k == nalt+1:
				v.Field(0).SetInt(int64(t.NumField()))
			default:
				v.Field(0).SetInt(1)
			}
			return v
		}
		for i := 0; i < t.NumField(); i++ {
			if t.Field(i).PkgPath != "" {
				continue
			}
			fp := parseBerTag(t.Field(i).Tag.Get("ber"))
			v.Field(i).Set(b.build(t.Field(i).Type, fp, path+"."+t.Field(i).Name, depth+1))
		}
	}
	return v
}

// normalise nil vs empty slices / byte strings, which the schema cannot distinguish
func normEqual(a, b reflect.Value) bool {
	if !a.IsValid() || !b.IsValid() {
		return a.IsValid() == b.IsValid()
	}
	if a.Type() != b.Type() {
		return false
	}
	switch a.Kind() {
	case reflect.Ptr, reflect.Interface:
		if a.IsNil() || b.IsNil() {
			return a.IsNil() == b.IsNil()
		}
		return normEqual(a.Elem(), b.Elem())
	case reflect.Slice:
		if a.Len() != b.Len() {
			return false
		}
		for i := 0; i < a.Len(); i++ {
			if !normEqual(a.Index(i), b.Index(i)) {
				return false
			}
		}
		return true
	case reflect.Struct:
		for i := 0; i < a.NumField(); i++ {
			if !normEqual(a.Field(i), b.Field(i)) {
				return false
			}
		}
		return true
	default:
		return reflect.DeepEqual(a.Interface(), b.Interface())
	}
}
