//go:build verif && go1.23

package zzverif

import (
	"encoding/json"
	"fmt"
	"reflect"
	"sort"
	"strings"
	"testing"
)

// C12: API contract (201+Location / 200 / 204), rejections have no effect, recharge notifies once.
// C11: no request crashes the service or wedges a subscriber.
// Both are history-mode explorations through the real gin router.

const supiX = "imsi-208930000000099" // never created, no account

type apiInfo struct {
	Sess   []*Sess          `json:"sess"`
	Bal    map[string]int64 `json:"bal"`
	Events int              `json:"events"` // accepted one-time events so far
}

func apiState(w *World, h *HistRun) (string, any) {
	k, info := acctState(w, h)
	ai := apiInfo{Sess: h.Sess, Bal: info.(AcctInfo).Bal}
	for _, stp := range h.Steps {
		if stp.Op.K == "create" && stp.Op.OTE != "" && stp.Resp.Code == 201 {
			ai.Events++
		}
	}
	var st []string
	for _, se := range h.Sess {
		if !se.Live {
			st = append(st, fmt.Sprintf("u%d-stale", se.U))
		}
	}
	sort.Strings(st)
	s := w.Snapshot(false)
	var nu []string
	for _, supi := range sortedKeys(s.UEs) {
		nu = append(nu, fmt.Sprintf("%s:%s:%d", supi[len(supi)-2:], s.UEs[supi].NotifyUri, s.UEs[supi].Records))
	}
	// ghost state the recharge oracle depends on: the notification URI of the latest accepted create per subscriber
	ghost := map[string]string{}
	for _, stp := range h.Steps {
		if stp.Op.K == "create" && stp.Resp.Code == 201 {
			ghost[stp.Supi] = stp.Op.Notify
		}
	}
	var gs []string
	for _, supi := range sortedKeys(ghost) {
		gs = append(gs, supi[len(supi)-2:]+"=>"+ghost[supi])
	}
	return k + "|" + strings.Join(st, ",") + "|" + strings.Join(nu, ",") + "|" + strings.Join(gs, ",") + fmt.Sprintf("|ev%d", ai.Events), ai
}

// effectView: the parts of the state a rejected request must leave alone
func effectView(s *Snap) map[string]any {
	ues := map[string]any{}
	for k, u := range s.UEs {
		ues[k] = map[string]any{"reserved": u.Reserved, "sessions": u.Sessions, "recHash": u.RecHash, "records": u.Records,
			"ratingMode": u.RatingType, "unitCost": u.UnitCost, "requestNumbers": u.ReqNum, "notifyUri": u.NotifyUri}
	}
	return map[string]any{"bal": s.Bal, "ues": ues, "files": s.Files, "dbPuts": s.DBPuts}
}

func isProblem(body string) bool {
	var m map[string]any
	if json.Unmarshal([]byte(body), &m) != nil {
		return false
	}
	for _, k := range []string{"status", "cause", "title", "detail", "error"} {
		if _, ok := m[k]; ok {
			return true
		}
	}
	return false
}

// opIntent: what the driver meant the request to be (carried in Op.Path for "http"-free ops via Cons prefix is too hacky: use Method field)
// Method "" = valid request; otherwise the kind of invalidity.
func c12Step(w *World, h *HistRun, i int) (fs []Finding) {
	st := h.Steps[i]
	if st.Pre == nil || st.Post == nil {
		return
	}
	intent := st.Op.Method
	code := st.Resp.Code
	switch {
	case intent != "":
		if code < 400 || code > 499 {
			fs = append(fs, Finding{"rejection-status/" + intent + "/" + st.Op.K, fmt.Sprintf("step %d %s (%s) answered %d, expected 4xx", i, st.Op, intent, code)})
		}
		pre, post := effectView(st.Pre), effectView(st.Post)
		if !reflect.DeepEqual(pre, post) {
			fs = append(fs, Finding{"rejected-request-has-effect/" + intent + "/" + st.Op.K, fmt.Sprintf("step %d %s (%s) answered %d but changed state: %s", i, st.Op, intent, code, diffJSON(pre, post))})
		}
		if len(st.Notes) > 0 {
			fs = append(fs, Finding{"rejected-request-notifies/" + intent, fmt.Sprintf("step %d %s (%s) sent %d notification(s)", i, st.Op, intent, len(st.Notes))})
		}
	case st.Op.K == "create" && st.Op.OTE != "":
		// a one-time event is not session based: the property fixes no Location for it, only that it is accepted
		if code/100 != 2 {
			fs = append(fs, Finding{"event-contract", fmt.Sprintf("step %d %s (one-time event) answered %d", i, st.Op, code)})
		}
	case st.Op.K == "create":
		want := "http://127.0.0.1:8000" + ccBase + "/chargingdata/"
		ref := refOf(st.Resp.Location)
		if code != 201 || !strings.HasPrefix(st.Resp.Location, want) || ref == "" || strings.Contains(ref, "/") {
			fs = append(fs, Finding{"create-contract", fmt.Sprintf("step %d %s answered %d Location %q (expected 201 and %s<reference>)", i, st.Op, code, st.Resp.Location, want)})
		} else {
			if _, ok := st.Post.UEs[st.Supi]; !ok || !contains(st.Post.UEs[st.Supi].Sessions, ref) {
				fs = append(fs, Finding{"create-contract", fmt.Sprintf("step %d %s: Location ends in %q, which is not a session of the subscriber afterwards (%v)", i, st.Op, ref, st.Post.UEs[st.Supi].Sessions)})
			}
		}
		if st.SeqNo != st.Op.Seq {
			fs = append(fs, Finding{"sequence-number-echo/create", fmt.Sprintf("step %d %s: invocationSequenceNumber %d in the response", i, st.Op, st.SeqNo)})
		}
	case st.Op.K == "update":
		if code != 200 || st.SeqNo != st.Op.Seq || !st.HasTS {
			fs = append(fs, Finding{"update-contract", fmt.Sprintf("step %d %s answered %d seq=%d timestamp=%v (expected 200, seq %d, invocationTimeStamp)", i, st.Op, code, st.SeqNo, st.HasTS, st.Op.Seq)})
		}
	case st.Op.K == "release":
		if code != 204 || strings.TrimSpace(st.Resp.Body) != "" {
			fs = append(fs, Finding{"release-contract", fmt.Sprintf("step %d %s answered %d body %q (expected 204 without body)", i, st.Op, code, oneLine(st.Resp.Body, 80))})
		}
	case st.Op.K == "recharge":
		wantURI := ""
		for j := i - 1; j >= 0; j-- {
			if h.Steps[j].Op.K == "create" && h.Steps[j].Supi == st.Supi && h.Steps[j].Resp.Code == 201 {
				wantURI = h.Steps[j].Op.Notify
				break
			}
		}
		ok := code == 204 && len(st.Notes) == 1
		if wantURI == "" {
			// the consumer registered no notification URI: there is nobody to notify (the request is still answered,
			// and - checked by the steps that follow - leaves the subscriber usable)
			if len(st.Notes) != 0 || code == 0 {
				fs = append(fs, Finding{"recharge-contract/no-notify-uri", fmt.Sprintf("step %d %s answered %d, notifications %+v (no notification URI is registered)", i, st.Op, code, st.Notes)})
			}
			break
		}
		if ok {
			n := st.Notes[0]
			var body struct {
				ReauthorizationDetails []struct {
					RatingGroup int32 `json:"ratingGroup"`
				} `json:"reauthorizationDetails"`
			}
			json.Unmarshal([]byte(n.Body), &body)
			ok = n.Method == "POST" && n.URL == wantURI && len(body.ReauthorizationDetails) == 1 && body.ReauthorizationDetails[0].RatingGroup == st.Op.RG
		}
		if !ok {
			fs = append(fs, Finding{"recharge-contract", fmt.Sprintf("step %d %s answered %d, notifications %+v (expected 204 and exactly one POST to %s naming rating group %d)", i, st.Op, code, st.Notes, wantURI, st.Op.RG)})
		}
	}
	if st.Resp.Panic != "" {
		fs = append(fs, Finding{"handler-panic", fmt.Sprintf("step %d %s: panic escaped the router: %s", i, st.Op, oneLine(st.Resp.Panic, 200))})
	}
	if i == len(h.Steps)-1 {
		for _, c := range h.ReentrantCodes {
			if c != 200 {
				fs = append(fs, Finding{"update-from-notification-handler", fmt.Sprintf("step %d %s: the consumer answered the notification by an update of its session, which was answered %d", i, st.Op, c)})
			}
		}
	}
	return
}

func contains(ss []string, s string) bool {
	for _, x := range ss {
		if x == s {
			return true
		}
	}
	return false
}

func diffJSON(a, b any) string {
	ja, _ := json.Marshal(a)
	jb, _ := json.Marshal(b)
	return oneLine(fmt.Sprintf("before %s after %s", ja, jb), 700)
}

func c12Alphabet(tier string) func(raw json.RawMessage, depth int) []Op {
	return func(raw json.RawMessage, depth int) (ops []Op) {
		var in apiInfo
		json.Unmarshal(raw, &in)
		live := map[int]int{}
		created := map[int]int{}
		for _, s := range in.Sess {
			created[s.U]++
			if s.Live {
				live[s.U]++
			}
		}
		notify := func(u int) string {
			if created[u] > 0 && live[u] == 0 {
				return "http://smf-c.example/notify" // a re-attach through another SMF
			}
			return []string{"http://smf-a.example/notify", "http://smf-b.example/notify"}[u]
		}
		seq := int32(10*depth + 3)
		usage := func(req int32, used int32, tag int32) []MU {
			return []MU{{RG: 1, Req: req, Conts: []Cont{{Vol: used, Up: used / 2, Down: used - used/2, Seq: tag}}}}
		}
		for u := 0; u < 2; u++ {
			if live[u] < 2 && created[u] < 3 {
				c := mkCreate(u, fmt.Sprintf("smf%d", created[u]+1))
				c.Notify, c.Seq = notify(u), seq
				ops = append(ops, c)
			}
			if created[u] > 0 && depth <= 2 {
				// a create of a known subscriber that is rejected (pDUSessionChargingInformation without pduSessionInformation)
				// and names another notification URI: a rejected request registers nothing
				rc := mkCreate(u, "smf-rej")
				rc.NoPSI, rc.Notify, rc.Seq, rc.Method = true, "http://smf-x.example/notify", seq, "rejected-create"
				ops = append(ops, rc)
			}
			if created[u] > 0 && u == 0 && depth <= 1 {
				// a rating group that does not fit the 32 bits of a rating group: not a recharge of rating group 1
				ops = append(ops, Op{K: "http", Method: "PUT", Path: ccBase + "/recharging/" + supiA + "_4294967297", Supi: supiA})
				// more than one separator: names the (unknown) subscriber "<supiA>_77", not rating group 1 of supiA
				ops = append(ops, Op{K: "http", Method: "PUT", Path: ccBase + "/recharging/" + supiA + "_77_1", Supi: supiA})
			}
			if created[u] > 0 {
				ops = append(ops, Op{K: "recharge", U: u, RG: 1, Amt: 100})
				if u == 0 {
					// a rating group the subscriber has not used: still one notification, naming that rating group
					ops = append(ops, Op{K: "recharge", U: u, RG: 2})
				}
			}
			if u == 0 && depth >= 1 && in.Events < 1 {
				// a one-time event of the subscriber: opens no session and must leave the open ones usable
				ev := mkCreate(u, "smf-ev")
				ev.OTE, ev.Seq, ev.Notify = "IEC", seq, notify(u)
				ev.MUs = []MU{{RG: 1, Req: -1, Conts: []Cont{{Vol: 5, Up: 2, Down: 3, Seq: int32(3000 + depth), Offline: true}}}}
				ops = append(ops, ev)
			}
		}
		var liveOf [2]int
		liveOf[0], liveOf[1] = -1, -1
		stale := -1
		for si, s := range in.Sess {
			tag := int32(1000 + 10*depth + si)
			if s.Live {
				liveOf[s.U] = si
				ops = append(ops, Op{K: "update", S: si, MUs: usage(100, s.LastGrant[1], tag), Seq: seq})
				ops = append(ops, Op{K: "release", S: si, MUs: usage(-1, s.LastGrant[1], tag), Trig: []string{"FINAL"}, Seq: seq})
				// rejected requests addressed around this session
				ops = append(ops, Op{K: "update", U: s.U, S: si, Ref: "nosuchsession", MUs: usage(100, 10, tag), Seq: seq, Method: "unknown-reference", Notify: "http://smf-x.example/notify"})
				ops = append(ops, Op{K: "update", S: si, Supi: supiX, MUs: usage(100, 10, tag), Seq: seq, Method: "unknown-subscriber"})
				ops = append(ops, Op{K: "release", S: si, Supi: supiX, MUs: usage(-1, 10, tag), Trig: []string{"FINAL"}, Seq: seq, Method: "unknown-subscriber"})
				ops = append(ops, Op{K: "update", U: s.U, S: si, Ref: "nosuchsession", MUs: usage(100, 10, tag), Seq: seq, Method: "unknown-reference"})
				ops = append(ops, Op{K: "release", U: s.U, S: si, Ref: "nosuchsession", MUs: usage(-1, 10, tag), Trig: []string{"FINAL"}, Seq: seq, Method: "unknown-reference"})
			} else {
				stale = si
			}
		}
		if stale >= 0 {
			s := in.Sess[stale]
			tag := int32(1500 + 10*depth)
			ops = append(ops, Op{K: "update", S: stale, MUs: usage(100, 10, tag), Seq: seq, Method: "stale-reference"})
			ops = append(ops, Op{K: "release", S: stale, MUs: usage(-1, 10, tag), Trig: []string{"FINAL"}, Seq: seq, Method: "stale-reference"})
			_ = s
		}
		if in.Events >= 1 {
			// the empty string is not a reference the CHF ever handed out (a one-time event opens no session)
			tag := int32(1800 + 10*depth)
			ops = append(ops, Op{K: "update", Supi: supiA, EmptyRef: true, MUs: usage(100, 10, tag), Seq: seq, Method: "empty-reference"})
			ops = append(ops, Op{K: "release", Supi: supiA, EmptyRef: true, MUs: usage(-1, 10, tag), Trig: []string{"FINAL"}, Seq: seq, Method: "empty-reference"})
		}
		if liveOf[0] >= 0 && liveOf[1] >= 0 {
			// B's reference presented with A's subscriber identifier
			tag := int32(1700 + 10*depth)
			ops = append(ops, Op{K: "update", S: liveOf[0], Ref: in.Sess[liveOf[1]].Ref, MUs: usage(100, 10, tag), Seq: seq, Method: "foreign-reference"})
			ops = append(ops, Op{K: "release", S: liveOf[0], Ref: in.Sess[liveOf[1]].Ref, MUs: usage(-1, 10, tag), Trig: []string{"FINAL"}, Seq: seq, Method: "foreign-reference"})
		}
		if depth == 0 || tier == "thorough" {
			c := mkCreate(0, "smf9")
			c.Supi, c.Method = "nai-user@example.org", "unsupported-subscriber-type"
			ops = append(ops, c)
			ops = append(ops, Op{K: "recharge", Supi: supiX, RG: 1, Method: "unknown-subscriber"})
		}
		return
	}
}

func init() {
	histOracles["C12"] = HistOracle{Step: c12Step, State: apiState}
	checks["C12"] = func(t *testing.T) int {
		rep := NewReport("C12")
		pool := NewPool(0)
		depth := 4
		if rep.Tier == "thorough" {
			depth = 8
		}
		st := BFSStats{}
		sp := BFSSpec{Name: "api-2ue", Check: "C12", Oracle: "C12", Cfg: WorldCfg{Accounts: []Account{{supiA, 1, "1000", "2"}, {supiB, 1, "150", "1"}}},
			Supis: []string{supiA, supiB}, MaxDepth: depth, Alphabet: c12Alphabet(rep.Tier)}
		RunBFS(pool, sp, rep, &st)
		// consumers answering the notification with 400 / 404 / 500 / 200 without body: still exactly one notification
		for _, host := range []string{"smf-400", "smf-404", "smf-500", "smf-200", "smf-reentrant"} {
			cr := mkCreate(0, "smf1")
			cr.Notify, cr.Seq = "http://"+host+".example/notify", 3
			sp2 := BFSSpec{Name: "notify-answered-by-" + host, Check: "C12", Oracle: "C12", Cfg: sp.Cfg, Supis: sp.Supis, Prefix: []Op{cr}, MaxDepth: 2,
				Alphabet: func(raw json.RawMessage, d int) []Op {
					return []Op{{K: "recharge", U: 0, RG: 1, Amt: 100}, {K: "update", S: 0, MUs: []MU{{RG: 1, Req: 100, Conts: []Cont{{Vol: 0, Seq: int32(2000 + d)}}}}, Seq: int32(20 + d)}}
				}}
			RunBFS(pool, sp2, rep, &st)
		}
		{
			// a consumer that registers no notification URI at all: recharges, then further requests of the session
			cr := mkCreate(0, "smf1")
			cr.Notify, cr.Seq = "", 3
			sp3 := BFSSpec{Name: "no-notify-uri", Check: "C12", Oracle: "C12", Cfg: sp.Cfg, Supis: sp.Supis, Prefix: []Op{cr}, MaxDepth: 3,
				Alphabet: func(raw json.RawMessage, d int) []Op {
					return []Op{{K: "recharge", U: 0, RG: 1, Amt: 100}, {K: "recharge", U: 0, RG: 2},
						{K: "update", S: 0, MUs: []MU{{RG: 1, Req: 100, Conts: []Cont{{Vol: 0, Seq: int32(2100 + d)}}}}, Seq: int32(30 + d)}}
				}}
			RunBFS(pool, sp3, rep, &st)
		}
		rep.Cov["states"] = st.States
		rep.Cov["transitions"] = st.Transitions
		rep.Cov["traces_validated_against_impl"] = st.Transitions
		rep.Cov["samples"] = st.Samples
		rep.Cov["exhaustive"] = !st.CapHit && st.EngineErrs == 0
		rep.Cov["depth_completed"] = st.MaxDepthDone
		rep.Cov["per_level"] = st.PerLevel
		rep.Cov["distinct_outcomes"] = st.Outcomes
		rep.Cov["method"] = "breadth-first search over request histories through the real gin router (two subscribers, up to two live sessions each, re-attach with another notification URI); valid requests mixed with requests naming an unknown subscriber / unknown, stale or foreign session reference; every rejected request is compared before/after on balances, reservations, records (hash of the BER encoding), files and database writes"
		rep.Assumptions = append(rep.Assumptions, "outgoing notifications are captured at the HTTP client (gock) and never reach a network")
		return rep.Finish()
	}
}

// ---------------------------------------------------------------------------------------
// C11: malformed / unusual requests

type jsonObj = map[string]any

// buildBody builds the JSON body of one request for route kind k; c decides the deviations.
func buildBody(c *Chooser, k string) (body string, supi string) {
	supi = pick(c, "supi", supiA, "imsi-", "imsi", "nai-user@example.org", "", "imsi-a/b", "imsi-../x", "208930000000001", "gci-1", "gli-1",
		"imsi-"+strings.Repeat("7", 300), "imsi-12\x0034", "nai", "gci", "gli", "imsi-20893 0000001", "imsi-%2e%2e", "IMSI-208930000000001",
		// file-name limits are counted in octets: 251 + ".cdr" fits, 252 does not; 130 two-octet characters are 265 octets
		"imsi-"+strings.Repeat("7", 246), "imsi-"+strings.Repeat("7", 247), "imsi-"+strings.Repeat("\u00e9", 130), "imsi-"+strings.Repeat("\u00e9", 123))
	o := jsonObj{}
	if c.Pick(2, "supi-absent") == 0 {
		o["subscriberIdentifier"] = supi
	} else {
		supi = ""
	}
	switch c.Pick(4, "nfConsumerIdentification") {
	case 0:
		nf := jsonObj{}
		switch c.Pick(3, "nFName") {
		case 0:
			nf["nFName"] = "smf1"
		case 1:
			nf["nFName"] = ""
		}
		nf["nodeFunctionality"] = pick(c, "nodeFunctionality", "SMF", "", "XYZ")
		nf["nFIPv4Address"] = "10.0.0.7"
		switch c.Pick(14, "nFPLMNID") {
		case 12: // a mobile network code of three octets in two characters
			nf["nFPLMNID"] = jsonObj{"mcc": "208", "mnc": "1é"}
		case 13:
			nf["nFPLMNID"] = jsonObj{"mcc": "208", "mnc": "é1"}
		case 8: // right number of octets, fewer characters
			nf["nFPLMNID"] = jsonObj{"mcc": "é1", "mnc": "93"}
		case 9:
			nf["nFPLMNID"] = jsonObj{"mcc": "208", "mnc": "é"}
		case 10:
			nf["nFPLMNID"] = jsonObj{"mcc": "2a8", "mnc": "9x"}
		case 11:
			nf["nFPLMNID"] = jsonObj{"mcc": "208", "mnc": "€"}
		case 0:
			nf["nFPLMNID"] = jsonObj{"mcc": "208", "mnc": "93"}
		case 1:
		case 2:
			nf["nFPLMNID"] = jsonObj{"mcc": "", "mnc": "93"}
		case 3:
			nf["nFPLMNID"] = jsonObj{"mcc": "20", "mnc": "93"}
		case 4:
			nf["nFPLMNID"] = jsonObj{"mcc": "208", "mnc": ""}
		case 5:
			nf["nFPLMNID"] = jsonObj{"mcc": "208", "mnc": "9"}
		case 6:
			nf["nFPLMNID"] = jsonObj{"mcc": "208", "mnc": "1234"}
		case 7:
			nf["nFPLMNID"] = jsonObj{}
		}
		o["nfConsumerIdentification"] = nf
	case 1:
	case 2:
		o["nfConsumerIdentification"] = nil
	case 3:
		o["nfConsumerIdentification"] = jsonObj{}
	}
	if c.Pick(2, "invocationSequenceNumber") == 0 {
		o["invocationSequenceNumber"] = 4
	}
	if c.Pick(2, "invocationTimeStamp") == 0 {
		o["invocationTimeStamp"] = "2000-01-01T00:00:00Z"
	}
	if k == "create" {
		if c.Pick(2, "notifyUri") == 0 {
			o["notifyUri"] = "http://smf-a.example/notify"
		}
		if c.Pick(2, "oneTimeEvent") == 1 {
			o["oneTimeEvent"] = true
		}
	}
	switch c.Pick(6, "pDUSessionChargingInformation") {
	case 0:
		o["pDUSessionChargingInformation"] = jsonObj{"chargingId": 7, "pduSessionInformation": jsonObj{"pduSessionID": 5, "dnnId": "internet",
			"networkSlicingInfo": jsonObj{"sNSSAI": jsonObj{"sst": 1, "sd": "010203"}}}}
	case 1:
	case 2:
		o["pDUSessionChargingInformation"] = jsonObj{"chargingId": 7}
	case 3:
		o["pDUSessionChargingInformation"] = jsonObj{"chargingId": 7, "pduSessionInformation": jsonObj{"pduSessionID": 5}}
	case 4:
		o["pDUSessionChargingInformation"] = jsonObj{"chargingId": 7, "pduSessionInformation": jsonObj{"pduSessionID": 5, "networkSlicingInfo": jsonObj{}}}
	case 5:
		o["pDUSessionChargingInformation"] = jsonObj{}
	}
	if c.Pick(2, "registrationChargingInformation") == 1 {
		o["registrationChargingInformation"] = jsonObj{}
	}
	// members the charging function may or may not look at, present but empty or odd
	if pci, ok := o["pDUSessionChargingInformation"].(jsonObj); ok {
		switch c.Pick(7, "pduChargingInformation.members") {
		case 1:
			pci["userInformation"] = jsonObj{}
		case 2:
			pci["userInformation"] = jsonObj{"servedGPSI": "", "servedPEI": "", "unauthenticatedFlag": true, "roamerInOut": "BOGUS"}
		case 3:
			pci["userLocationinfo"] = jsonObj{}
		case 4:
			pci["userLocationinfo"] = jsonObj{"nrLocation": jsonObj{}, "eutraLocation": jsonObj{"tai": jsonObj{}}}
		case 5:
			pci["uetimeZone"] = "not-a-zone"
			pci["presenceReportingAreaInformation"] = jsonObj{"pra": jsonObj{}}
		case 6:
			pci["unitCountInactivityTimer"] = -1
			pci["rANSecondaryRATUsageReport"] = jsonObj{}
		}
		if z := c.Pick(7, "uetimeZone"); z > 0 {
			pci["uetimeZone"] = []string{"", "+08:00", "+08:00Z", "+08:00+1", "-05:00 ", "+8", "-13:60+2"}[z]
		}
		if psi, ok := pci["pduSessionInformation"].(jsonObj); ok {
			switch c.Pick(5, "pduSessionInformation.members") {
			case 1:
				psi["pduAddress"] = jsonObj{}
				psi["authorizedQoSInformation"] = jsonObj{}
				psi["subscribedSessionAMBR"] = jsonObj{}
			case 2:
				psi["hPlmnId"] = jsonObj{"mcc": "é1", "mnc": "9"}
				psi["servingCNPlmnId"] = jsonObj{}
				psi["servingNetworkFunctionID"] = jsonObj{}
			case 3:
				psi["pduType"] = "BOGUS"
				psi["sscMode"] = ""
				psi["ratType"] = "BOGUS"
				psi["startTime"] = "yesterday"
			case 4:
				psi["dnnId"] = strings.Repeat("d", 5000)
				psi["pduSessionID"] = -7
				psi["chargingCharacteristics"] = "zz"
			}
		}
	}
	switch c.Pick(6, "other-charging-information") {
	case 1:
		o["roamingQBCInformation"] = jsonObj{}
	case 2:
		o["n2ConnectionChargingInformation"] = jsonObj{}
		o["locationReportingChargingInformation"] = jsonObj{}
	case 3:
		o["sMSChargingInformation"] = jsonObj{}
		o["nEFChargingInformation"] = jsonObj{}
	case 4:
		o["serviceSpecificationInfo"] = strings.Repeat("s", 5000)
		o["tenantIdentifier"] = ""
		o["retransmissionIndicator"] = true
		o["supportedFeatures"] = "zz"
	case 5:
		o["chargingId"] = -2147483648
		o["oneTimeEventType"] = "BOGUS"
	}
	switch c.Pick(3, "invocationTimeStamp.shape") {
	case 1:
		o["invocationTimeStamp"] = "garbage"
	case 2:
		o["invocationTimeStamp"] = ""
	}
	cont := func() jsonObj {
		u := jsonObj{"localSequenceNumber": 1, "totalVolume": 10}
		switch c.Pick(5, "usedUnitContainer.members") {
		case 1:
			u["eventTimeStamps"] = []any{}
			u["triggers"] = []any{jsonObj{}, nil}
		case 2:
			u["pDUContainerInformation"] = jsonObj{}
			u["nSPAContainerInformation"] = jsonObj{}
		case 3:
			u["triggerTimestamp"] = "garbage"
			u["time"] = -1
			u["serviceId"] = -1
		case 4:
			u["totalVolume"] = 2147483647
			u["uplinkVolume"] = 2147483647
			u["downlinkVolume"] = -2147483648
			u["serviceSpecificUnits"] = -1
			u["localSequenceNumber"] = -1
		}
		u["quotaManagementIndicator"] = pick(c, "quotaManagementIndicator", "ONLINE_CHARGING", "OFFLINE_CHARGING", "QUOTA_MANAGEMENT_SUSPENDED", "", "BOGUS")
		return u
	}
	muBase := 0
	if k == "create" {
		muBase = 1
	}
	switch (c.Pick(9, "multipleUnitUsage-shape") + muBase) % 9 {
	case 0:
		o["multipleUnitUsage"] = []any{jsonObj{"ratingGroup": 1, "requestedUnit": jsonObj{"totalVolume": 100}, "usedUnitContainer": []any{cont()}}}
	case 1:
	case 2:
		o["multipleUnitUsage"] = []any{}
	case 3:
		o["multipleUnitUsage"] = []any{jsonObj{"ratingGroup": 1, "usedUnitContainer": []any{cont()}}}
	case 4:
		o["multipleUnitUsage"] = []any{jsonObj{"ratingGroup": 1, "requestedUnit": jsonObj{"totalVolume": 100}}}
	case 5:
		o["multipleUnitUsage"] = []any{jsonObj{"ratingGroup": 1, "requestedUnit": jsonObj{"totalVolume": 100}, "usedUnitContainer": []any{}}}
	case 6:
		o["multipleUnitUsage"] = []any{jsonObj{"ratingGroup": 77, "requestedUnit": jsonObj{"totalVolume": 100}, "usedUnitContainer": []any{cont()}}}
	case 7:
		o["multipleUnitUsage"] = []any{jsonObj{"ratingGroup": 1, "requestedUnit": jsonObj{"totalVolume": -5}, "usedUnitContainer": []any{jsonObj{"localSequenceNumber": 1, "totalVolume": -7, "quotaManagementIndicator": "ONLINE_CHARGING"}}}}
	case 8:
		o["multipleUnitUsage"] = []any{jsonObj{}, nil}
	}
	switch mu := c.Pick(12, "multipleUnitUsage"); {
	case mu == 9:
		o["multipleUnitUsage"] = []any{jsonObj{"ratingGroup": -1, "requestedUnit": jsonObj{"totalVolume": 100}, "usedUnitContainer": []any{cont()}}}
	case mu == 10:
		o["multipleUnitUsage"] = []any{jsonObj{"ratingGroup": 2147483647, "requestedUnit": jsonObj{"totalVolume": 2147483647}, "usedUnitContainer": []any{cont()}, "uPFID": ""}}
	case mu == 11:
		o["multipleUnitUsage"] = []any{jsonObj{"ratingGroup": 1, "requestedUnit": jsonObj{}, "usedUnitContainer": []any{cont(), cont()}}, jsonObj{"ratingGroup": 1, "usedUnitContainer": []any{cont()}}}
	}
	switch c.Pick(6, "triggers") {
	case 1:
		o["triggers"] = []any{jsonObj{"triggerType": "FINAL", "triggerCategory": "IMMEDIATE_REPORT"}}
	case 2:
		o["triggers"] = []any{jsonObj{"triggerType": "VOLUME_LIMIT", "triggerCategory": "IMMEDIATE_REPORT"}}
	case 3:
		o["triggers"] = []any{jsonObj{}}
	case 4:
		o["triggers"] = []any{jsonObj{"triggerType": "BOGUS"}}
	case 5:
		o["triggers"] = []any{nil}
	}
	switch c.Pick(7, "body-shape") {
	case 1:
		return "{}", ""
	case 2:
		return "[]", ""
	case 3:
		return "null", ""
	case 4:
		return "", ""
	case 5:
		return `{"subscriberIdentifier":`, ""
	case 6:
		return `{"subscriberIdentifier":17,"multipleUnitUsage":"x"}`, ""
	}
	b, _ := json.Marshal(o)
	return string(b), supi
}

func c11Malformed(k int) (ops []Op) {
	for _, kind := range []string{"create", "update", "release"} {
		var body, supi string
		Enumerate(k, func(c *Chooser) {
			body, supi = buildBody(c, kind)
		}, func(c *Chooser) bool {
			devs := c.Deviations()
			if len(devs) == 0 {
				return true // the base request is the well-formed one
			}
			lbl := strings.Join(devs, ",")
			op := Op{K: kind, S: 0, Raw: body, Supi: supi, Method: lbl}
			if supi == "" {
				op.Supi = "-" // no subscriber named
			}
			ops = append(ops, op)
			if kind != "create" {
				// the same body addressed to an unknown reference
				o2 := op
				o2.Ref = "nosuchsession"
				if len(devs) == 1 {
					ops = append(ops, o2)
				}
			}
			return true
		})
	}
	for _, p := range []string{supiA + "_1", supiA, "_", supiA + "_abc", supiA + "_1_2", "_1", supiA + "_", "imsi-208930000000099_1", supiA + "_99999999999"} {
		ops = append(ops, Op{K: "http", Method: "PUT", Path: ccBase + "/recharging/" + p, Cons: "recharge-param:" + p})
	}
	ops = append(ops, Op{K: "http", Method: "GET", Path: ccBase + "/recharging", Cons: "recharge-get"})
	ops = append(ops, Op{K: "http", Method: "POST", Path: ccBase + "/chargingdata//update", Raw: "{}", Cons: "empty-ref"})
	return
}

func c11Label(op Op) string {
	if op.K == "http" {
		return op.Cons
	}
	l := op.Method
	if op.Ref != "" {
		l += "+unknown-ref"
	}
	return l
}

// c11Class: the first deviation of the request names the finding
func c11Class(op Op) string {
	l := c11Label(op)
	if i := strings.Index(l, ","); i > 0 {
		l = l[:i]
	}
	return op.K + "/" + l
}

func c11Step(w *World, h *HistRun, i int) (fs []Finding) {
	st := h.Steps[i]
	cls := "well-formed"
	// the request that carries deviations in this history (the follow-up is checked under its name)
	for j := 0; j <= i; j++ {
		if h.Steps[j].Op.Method != "" || h.Steps[j].Op.K == "http" {
			cls = c11Class(h.Steps[j].Op)
		}
	}
	what := "request"
	if st.Op.Method == "" && st.Op.K != "http" {
		what = "follow-up " + st.Op.K
	}
	if st.Resp.Panic != "" {
		fs = append(fs, Finding{"panic-escapes/" + cls, fmt.Sprintf("step %d %s [%s]: panic escaped the router: %s", i, what, c11Label(st.Op), oneLine(st.Resp.Panic, 160))})
	}
	if st.Resp.Code >= 500 {
		fs = append(fs, Finding{"server-error/" + cls, fmt.Sprintf("step %d %s [%s] body %s answered %d %s", i, what, c11Label(st.Op), oneLine(st.Op.Raw, 200), st.Resp.Code, oneLine(st.Resp.Body, 100))})
	}
	if st.Post != nil && st.Post.Cgf != nil && len(st.Post.Cgf.Overlaps) > 0 && (st.Pre == nil || st.Pre.Cgf == nil || len(st.Pre.Cgf.Overlaps) < len(st.Post.Cgf.Overlaps)) {
		fs = append(fs, Finding{"cdr-transfer-derailed/" + cls, fmt.Sprintf("step %d %s [%s]: %v", i, what, c11Label(st.Op), st.Post.Cgf.Overlaps)})
	}
	if st.Resp.Code >= 400 && st.Resp.Code < 500 && !isProblem(st.Resp.Body) {
		fs = append(fs, Finding{"rejection-without-problem-details/" + cls, fmt.Sprintf("step %d %s [%s] answered %d with body %q", i, what, c11Label(st.Op), st.Resp.Code, oneLine(st.Resp.Body, 100))})
	}
	return
}

func c11State(w *World, h *HistRun) (string, any) {
	// histories are short and each is its own state
	var parts []string
	for _, s := range h.Steps {
		parts = append(parts, fmt.Sprintf("%s/%s/%s/%s/%d", s.Op.K, c11Label(s.Op), s.Op.Path, s.Supi, s.Resp.Code))
	}
	return strings.Join(parts, ";"), apiInfo{Sess: h.Sess}
}

func init() {
	histOracles["C11"] = HistOracle{Step: c11Step, State: c11State}
	checks["C11"] = func(t *testing.T) int {
		rep := NewReport("C11")
		pool := NewPool(0)
		k := 1
		if rep.Tier == "thorough" {
			k = 2
		}
		mal := c11Malformed(k)
		if rep.Tier != "thorough" {
			// quick: all single deviations, plus every pair that involves the subscriber identifier, the consumer identification or the triggers
			for _, op := range c11Malformed(2) {
				if strings.Count(op.Method, ",") == 1 && (strings.Contains(op.Method, "supi") || strings.Contains(op.Method, "nfConsumerIdentification") || strings.Contains(op.Method, "triggers")) && op.Ref == "" {
					mal = append(mal, op)
				}
			}
		}
		total := BFSStats{Outcomes: map[string]int{}}
		for _, pre := range [][]Op{{mkCreate(0, "smf1")}, {mkCreate(0, "smf1"), {K: "update", S: 0, MUs: []MU{{RG: 1, Req: 100, Conts: []Cont{{Vol: 0, Seq: 1}}}}, Seq: 2}}} {
			st := BFSStats{}
			sp := BFSSpec{Name: fmt.Sprintf("malformed-after-%d-ops", len(pre)), Check: "C11", Oracle: "C11", Cfg: WorldCfg{Accounts: []Account{{supiA, 1, "1000", "2"}}, HorizonS: 120},
				Supis: []string{supiA}, Prefix: pre, MaxDepth: 2,
				Alphabet: func(raw json.RawMessage, depth int) []Op {
					if depth == 0 {
						if len(pre) == 2 && rep.Tier != "thorough" {
							return mal[:min(len(mal), 1500)]
						}
						return mal
					}
					// follow-ups: a well-formed update on the existing session and a well-formed create for the subscriber
					return []Op{{K: "update", S: 0, MUs: []MU{{RG: 1, Req: 50, Conts: []Cont{{Vol: 0, Seq: 9}}}}, Seq: 9}, mkCreate(0, "smf2")}
				}}
			RunBFS(pool, sp, rep, &st)
			total.States += st.States
			total.Transitions += st.Transitions
			total.Samples = append(total.Samples, st.Samples...)
			for k, v := range st.Outcomes {
				total.Outcomes[k] += v
			}
			if st.EngineErrs > 0 || st.CapHit {
				total.CapHit = true
			}
		}
		// odd subscriber identifiers: the follow-up create must use the same identifier
		st := BFSStats{}
		sp := BFSSpec{Name: "odd-supi-twice", Check: "C11", Oracle: "C11", Cfg: WorldCfg{Accounts: []Account{{supiA, 1, "1000", "2"}}, HorizonS: 120, Cgf: true}, Supis: []string{supiA}, MaxDepth: 3,
			Alphabet: func(raw json.RawMessage, depth int) (ops []Op) {
				var in apiInfo
				json.Unmarshal(raw, &in)
				if depth > 0 {
					// a usage report and a release on whatever session the odd identifier obtained
					for si := range in.Sess {
						ops = append(ops, Op{K: "update", S: si, MUs: []MU{{RG: 1, Req: 10, Conts: []Cont{{Vol: 5, Seq: int32(40 + depth), Offline: true}}}}, Method: "usage-for-odd-supi"})
						ops = append(ops, Op{K: "release", S: si, MUs: []MU{{RG: 1, Req: -1, Conts: []Cont{{Vol: 5, Seq: int32(50 + depth), Offline: true}}}}, Method: "usage-for-odd-supi"})
					}
					if depth > 1 {
						return
					}
				}
				for _, s := range []string{"imsi-", "imsi", "nai-user@example.org", "imsi-a/b", "imsi-../x", "208930000000001", "gci-1", "gli-1", "imsi-208930000000001 ", "imsi-%2e%2e", supiA,
					"imsi-" + strings.Repeat("7", 300), "imsi-12\x0034", "nai", "gci", "gli", "IMSI-208930000000001", "imsi-.", "imsi-..",
					"imsi-" + strings.Repeat("7", 246), "imsi-" + strings.Repeat("7", 247), "imsi-" + strings.Repeat("\u00e9", 130), "imsi-" + strings.Repeat("\u00e9", 123),
					// control characters: the identifier ends up in the command line of the CDR transfer
					"imsi-12\r\nQUIT", "imsi-12\n", "imsi-12\t3", "imsi-12\x7f"} {
					c := mkCreate(0, "smf1")
					c.Supi, c.Method = s, "supi="+s
					ops = append(ops, c)
				}
				return
			}}
		RunBFS(pool, sp, rep, &st)
		total.States += st.States
		total.Transitions += st.Transitions
		for k, v := range st.Outcomes {
			total.Outcomes[k] += v
		}
		if len(total.Samples) > 5 {
			total.Samples = total.Samples[:5]
		}
		rep.Cov["states"] = total.States
		rep.Cov["transitions"] = total.Transitions
		rep.Cov["traces_validated_against_impl"] = total.Transitions
		rep.Cov["samples"] = total.Samples
		rep.Cov["exhaustive"] = !total.CapHit
		rep.Cov["malformed_requests"] = len(mal)
		rep.Cov["deviation_bound"] = k
		rep.Cov["distinct_outcomes"] = total.Outcomes
		rep.Cov["method"] = "every request body within the deviation bound of the well-formed create/update/release body (members absent/null/empty, odd subscriber identifiers, short PLMN ids, odd usage containers and triggers, non-object bodies), every recharging path parameter shape; each sent after a create (and after create+update) through the real router and followed by a well-formed update and create for the same subscriber; a wedge is a follow-up driver thread blocked forever (decided in virtual time)"
		return rep.Finish()
	}
}
