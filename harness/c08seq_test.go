//go:build verif && go1.23

package zzverif

import (
	"encoding/json"
	"fmt"
	"reflect"
	"strings"
	"testing"
	"time"

	"github.com/fiorix/go-diameter/diam/datatype"

	charging_code "github.com/free5gc/chf/ccs_diameter/code"
	cd "github.com/free5gc/chf/ccs_diameter/datatype"
	"verif.local/vs"
)

// C08, history part: "for every service-usage request for a known subscriber and rating group the rating server
// answers" must hold after any earlier requests, answerable or not. A history is a word over request kinds
//   K known debit      R known reserve      U unknown subscriber     G unknown rating group
//   Z reserve against a stored unit cost of 0      M reserve against a malformed stored unit cost
//   N request without Subscription-Id
// sent one after the other to one rating server (each on a fresh connection, or all on one connection).
// Explored: every word up to a length bound, and long runs x^n followed by K and R for every kind x.

type c08SeqArgs struct {
	Words   []string `json:"words"`
	OneConn bool     `json:"oneConn"`
}

type c08SeqOut struct {
	Requests int       `json:"requests"`
	Words    int       `json:"words"`
	Redials  int       `json:"redials"`
	Finds    []Finding `json:"finds"`
}

const c08Kinds = "KRUGZMN"

func c08SeqJob(t *testing.T, raw json.RawMessage) (any, error) {
	var a c08SeqArgs
	json.Unmarshal(raw, &a)
	var out c08SeqOut
	seen := map[string]bool{}
	for _, word := range a.Words {
		word := word
		cfg := WorldCfg{NoABMF: true, Accounts: []Account{
			{"imsi-208930000000001", 1, "1000", "3"}, {"imsi-208930000000002", 1, "1000", "0"}, {"imsi-208930000000003", 1, "1000", "abc"}}}
		find := func(rule, detail string) {
			if !seen[rule] {
				seen[rule] = true
				out.Finds = append(out.Finds, Finding{rule, detail})
			}
		}
		o := runWorld(t, cfg, nil, func(w *World) {
			vs.Go("T1", func() {
				var shared *diamClient
				for i, k := range word {
					var cli *diamClient
					var err error
					if a.OneConn && shared != nil {
						cli = shared
					} else {
						cli, err = dialPeer("127.0.0.1:3868", "SUA")
						if err != nil {
							find("history/server-refuses-connection", fmt.Sprintf("history %s: request %d: dial: %v", brief(word), i+1, err))
							return
						}
						if a.OneConn {
							shared = cli
						}
					}
					imsi, rg, sub := "208930000000001", uint32(1), cd.REQ_SUBTYPE_DEBIT
					switch k {
					case 'R':
						sub = cd.REQ_SUBTYPE_RESERVE
					case 'U':
						imsi = "208930000000777"
					case 'G':
						rg = 77
					case 'Z':
						imsi, sub = "208930000000002", cd.REQ_SUBTYPE_RESERVE
					case 'M':
						imsi, sub = "208930000000003", cd.REQ_SUBTYPE_RESERVE
					}
					req := &cd.ServiceUsageRequest{SessionId: datatype.UTF8String(fmt.Sprintf("rate-%d", i+1)), OriginHost: "verif-client", OriginRealm: "go-diameter", DestinationRealm: "go-diameter", DestinationHost: "server",
						UserName: datatype.OctetString("CHF"), ActualTime: datatype.Time(time.Now()),
						SubscriptionId: &cd.SubscriptionId{SubscriptionIdType: cd.END_USER_IMSI, SubscriptionIdData: datatype.UTF8String(imsi)},
						ServiceRating:  &cd.ServiceRating{ServiceIdentifier: datatype.Unsigned32(rg), RequestSubType: sub}}
					if k == 'N' {
						req.SubscriptionId = nil
					}
					srv := reflect.ValueOf(req.ServiceRating).Elem()
					srv.FieldByName("ConsumedUnits").SetUint(5)
					srv.FieldByName("MonetaryQuota").SetUint(100)
					m, err := cli.exchange(charging_code.ServiceUsageMessage, req)
					if a.OneConn && err != nil {
						// the server has closed the connection (it does so after a request it cannot parse): a peer dials again
						if cli, err = dialPeer("127.0.0.1:3868", "SUA"); err != nil {
							find("history/server-refuses-connection", fmt.Sprintf("history %s: request %d: dial again: %v", brief(word), i+1, err))
							return
						}
						shared = cli
						out.Redials++
						m, err = cli.exchange(charging_code.ServiceUsageMessage, req)
					}
					if !a.OneConn {
						cli.conn.Close()
					}
					out.Requests++
					if k != 'K' && k != 'R' && k != 'Z' && k != 'M' {
						continue // (may stay unanswered)
					}
					what := fmt.Sprintf("history %s (connection: %s): request %d (%c)", brief(word), map[bool]string{true: "one for all", false: "one per request"}[a.OneConn], i+1, k)
					cls := map[rune]string{'K': "known", 'R': "known", 'Z': "zero-unit-cost", 'M': "malformed-unit-cost"}[k]
					if err != nil || m == nil {
						find("history/server-does-not-answer/"+cls, what+fmt.Sprintf(": no answer (%v)", err))
						continue
					}
					var sua cd.ServiceUsageResponse
					if err := m.Unmarshal(&sua); err != nil || sua.ServiceRating == nil {
						find("history/answer-incomplete/"+cls, what+fmt.Sprintf(": %v", err))
						continue
					}
					if string(sua.SessionId) != fmt.Sprintf("rate-%d", i+1) {
						find("history/answer-of-another-request", what+fmt.Sprintf(": Session-Id %q", sua.SessionId))
					}
					price := reflect.ValueOf(sua.ServiceRating).Elem().FieldByName("Price").Uint()
					allowed := reflect.ValueOf(sua.ServiceRating).Elem().FieldByName("AllowedUnits").Uint()
					switch k {
					case 'K':
						if price != 15 {
							find("history/debit-price-not-exact", what+fmt.Sprintf(": price %d for 5 units at unit cost 3", price))
						}
					case 'R':
						if allowed != 33 || price != 99 {
							find("history/reserve-rating-not-exact", what+fmt.Sprintf(": allowed %d price %d for a quota of 100 at unit cost 3", allowed, price))
						}
					case 'Z', 'M':
						if allowed != 0 || price != 0 {
							find("history/units-allowed-without-tariff", what+fmt.Sprintf(": allowed %d price %d", allowed, price))
						}
					}
				}
				if shared != nil {
					shared.conn.Close()
				}
			})
		}, nil)
		out.Words++
		if o.Panic != "" || o.Res.Err != "" {
			return nil, fmt.Errorf("engine: %s %s", o.Panic, o.Res.Err)
		}
		for _, p := range o.ThPanics {
			find("history/driver-panic", oneLine(p, 300))
		}
	}
	return out, nil
}

// brief: run-length form of a word (U^40 K R)
func brief(w string) string {
	var parts []string
	for i := 0; i < len(w); {
		j := i
		for j < len(w) && w[j] == w[i] {
			j++
		}
		if j-i > 3 {
			parts = append(parts, fmt.Sprintf("%c^%d", w[i], j-i))
		} else {
			parts = append(parts, w[i:j])
		}
		i = j
	}
	return strings.Join(parts, " ")
}

func init() { jobHandlers["c08seq"] = c08SeqJob }

func c08Histories(rep *Report, pool *Pool) (cov map[string]any, reqs int, exhaustive bool) {
	exhaustive = true
	depth, runs := 3, []int{7, 8, 9, 16, 17, 40}
	if rep.Tier == "thorough" {
		depth, runs = 4, []int{7, 8, 9, 15, 16, 17, 31, 32, 33, 64, 65, 128, 300}
	}
	var words []string
	var gen func(p string)
	gen = func(p string) {
		if len(p) > 0 {
			words = append(words, p)
		}
		if len(p) == depth {
			return
		}
		for _, k := range c08Kinds {
			gen(p + string(k))
		}
	}
	gen("")
	short := len(words)
	for _, k := range c08Kinds {
		for _, n := range runs {
			words = append(words, strings.Repeat(string(k), n)+"KR")
		}
	}
	var jobs []Job
	for _, one := range []bool{false, true} {
		for i := 0; i < len(words); i += 25 {
			jobs = append(jobs, Job{Kind: "c08seq", Args: mustJSON(c08SeqArgs{Words: words[i:min(i+25, len(words))], OneConn: one})})
		}
	}
	n := 0
	for i, r := range pool.RunAll(jobs) {
		if r.Crash != "" {
			rep.Finding("history/process-crash", fmt.Sprintf("the process hosting the rating server died: %s", oneLine(r.Crash, 400)), map[string]any{"job": json.RawMessage(jobs[i].Args), "kind": "c08seq"})
			continue
		}
		if r.Err != "" {
			rep.EngineError("c08seq: " + r.Err)
			exhaustive = false
			continue
		}
		var o c08SeqOut
		json.Unmarshal(r.Out, &o)
		reqs += o.Requests
		n += o.Words
		for _, f := range o.Finds {
			rep.Finding(f.Rule, f.Detail, map[string]any{"job": json.RawMessage(jobs[i].Args), "kind": "c08seq", "case": f.Detail})
		}
	}
	cov = map[string]any{"request_kinds": c08Kinds, "all_words_up_to_length": depth, "short_words": short, "long_runs": runs, "histories_executed": n, "requests": reqs, "connection_modes": 2}
	return
}
