//go:build verif && go1.23

package zzverif

import (
	"context"
	"encoding/json"
	"fmt"
	"sync"
	"testing"
	"time"

	"github.com/fiorix/go-diameter/diam"
	"github.com/fiorix/go-diameter/diam/avp"
	"github.com/fiorix/go-diameter/diam/datatype"

	"github.com/free5gc/chf/pkg/abmf"
	"github.com/free5gc/chf/pkg/rf"
	"verif.local/vs"
)

// C18: Diameter connections and background tasks stay bounded as requests accumulate.
// Resource vector (exact, at quiescence): open modelled connections, half-closed connections,
// goroutines of the world (parsed from a full stack dump restricted to the synctest bubble).

func c18Step(w *World, h *HistRun, i int) (fs []Finding) {
	if i != len(h.Steps)-1 {
		return
	}
	st := h.Steps[i]
	if st.Pre == nil || st.Post == nil || st.Resp.Code/100 != 2 {
		return
	}
	// steady state: the same kind of request has been completed before in this history
	seenBefore := false
	for j := 0; j < i; j++ {
		if h.Steps[j].Op.K == st.Op.K && len(h.Steps[j].Op.MUs) == len(st.Op.MUs) && h.Steps[j].Op.Cons == st.Op.Cons && h.Steps[j].Supi == st.Supi && h.Steps[j].Resp.Code/100 == 2 {
			seenBefore = true
		}
	}
	if !seenBefore {
		return
	}
	if st.Post.Open > st.Pre.Open {
		fs = append(fs, Finding{"connections-left-behind", fmt.Sprintf("step %d %s: open Diameter connections %d -> %d (half-closed %d -> %d) although the same request had already been completed once; dials so far %d", i, st.Op, st.Pre.Open, st.Post.Open, st.Pre.Half, st.Post.Half, st.Post.Dials)})
	}
	if st.Post.Gor > st.Pre.Gor {
		fs = append(fs, Finding{"tasks-left-behind", fmt.Sprintf("step %d %s: background goroutines %d -> %d although the same request had already been completed once (open connections %d -> %d)", i, st.Op, st.Pre.Gor, st.Post.Gor, st.Pre.Open, st.Post.Open)})
	}
	return
}

type c18RunArgs struct {
	N      int    `json:"n"`
	UEs    int    `json:"ues"`
	GapMs  int64  `json:"gapMs"` // virtual time between requests
	Settle int    `json:"settleS"`
	Subs   int    `json:"subs,omitempty"`   // >0: that many different subscribers, each served once (create, update, release)
	Outage string `json:"outage,omitempty"` // "rf" / "abmf": that peer is down for the first N updates, then comes up
}

type c18RunOut struct {
	Open   []int    `json:"open"`
	Gor    []int    `json:"gor"`
	Dials  int      `json:"dials"`
	After  [2]int   `json:"after"` // open, goroutines after the settle period
	Engine string   `json:"engine"`
	Fail   []string `json:"fail"`
}

func c18RunJob(t *testing.T, raw json.RawMessage) (any, error) {
	var a c18RunArgs
	json.Unmarshal(raw, &a)
	var out c18RunOut
	if a.Subs > 0 {
		return c18SubscribersJob(t, a)
	}
	if a.Outage == "abmf-rejects" {
		return c18RejectingPeerJob(t, a)
	}
	if a.Outage != "" {
		return c18OutageJob(t, a)
	}
	supis := []string{supiA, supiB}[:a.UEs]
	cfg := WorldCfg{Accounts: []Account{{supiA, 1, "100000000", "1"}, {supiB, 1, "100000000", "1"}}, HorizonS: 24 * 3600, StepCap: 50_000_000}
	o := runWorld(t, cfg, nil, func(w *World) {
		vs.Go("T1", func() {
			var ops []Op
			for u := range supis {
				ops = append(ops, mkCreate(u, "smf1"))
			}
			h := w.ExecOps(supis, ops, len(ops), false)
			for n := 0; n < a.N; n++ {
				u := n % a.UEs
				g := h.Sess[u].LastGrant[1]
				op := Op{K: "update", S: u, MUs: []MU{{RG: 1, Req: 50, Conts: []Cont{{Vol: g, Seq: int32(n)}}}}, Seq: int32(n)}
				r := w.Do("POST", ccBase+"/chargingdata/"+h.Sess[u].Ref+"/update", op.Request(supis[u]), nil)
				if r.Code != 200 {
					out.Fail = append(out.Fail, fmt.Sprintf("update %d answered %d", n, r.Code))
				}
				units, _, _ := parseUnits(r.Body)
				for _, x := range units {
					if x.Granted >= 0 {
						h.Sess[u].LastGrant[x.RG] = x.Granted
					}
				}
				vs.Quiesce()
				if a.GapMs > 0 {
					time.Sleep(time.Duration(a.GapMs) * time.Millisecond)
					vs.Quiesce()
				}
				s := w.Snapshot(true)
				out.Open = append(out.Open, s.Open)
				out.Gor = append(out.Gor, s.Gor)
				out.Dials = s.Dials
			}
			if a.Settle > 0 {
				time.Sleep(time.Duration(a.Settle) * time.Second)
				vs.Quiesce()
			}
			s := w.Snapshot(true)
			out.After = [2]int{s.Open, s.Gor}
		})
	}, nil)
	if o.Panic != "" || o.Res.Err != "" {
		out.Engine = o.Panic + o.Res.Err
	}
	if o.Res.Deadlock {
		out.Fail = append(out.Fail, fmt.Sprint("blocked forever: ", o.Res.Blocked))
	}
	return out, nil
}

// c18OutageJob: a peer is down while N updates are processed (every dial to it is refused), then comes up.
// The resources held after each failed update must not grow, and once the peer is back updates are granted again.
func c18OutageJob(t *testing.T, a c18RunArgs) (any, error) {
	var out c18RunOut
	cfg := WorldCfg{Accounts: []Account{{supiA, 1, "100000000", "1"}}, HorizonS: 24 * 3600, StepCap: 50_000_000, NoRF: a.Outage == "rf", NoABMF: a.Outage == "abmf"}
	o := runWorld(t, cfg, nil, func(w *World) {
		vs.Go("T1", func() {
			h := w.ExecOps([]string{supiA}, []Op{mkCreate(0, "smf1")}, 1, false)
			if len(h.Sess) == 0 {
				out.Fail = append(out.Fail, "create failed")
				return
			}
			upd := func(n int) (int, int32) {
				op := Op{K: "update", S: 0, MUs: []MU{{RG: 1, Req: 50, Conts: []Cont{{Vol: 0, Seq: int32(n)}}}}, Seq: int32(n)}
				r := w.Do("POST", ccBase+"/chargingdata/"+h.Sess[0].Ref+"/update", op.Request(supiA), nil)
				g := int32(-1)
				units, _, _ := parseUnits(r.Body)
				for _, x := range units {
					if x.RG == 1 {
						g = x.Granted
					}
				}
				vs.Quiesce()
				return r.Code, g
			}
			for n := 0; n < a.N; n++ {
				upd(n)
				s := w.Snapshot(true)
				out.Open = append(out.Open, s.Open)
				out.Gor = append(out.Gor, s.Gor)
				out.Dials = s.Dials
			}
			// the peer comes (back) up
			var wg sync.WaitGroup
			wg.Add(1)
			if a.Outage == "rf" {
				rf.OpenServer(context.Background(), &wg)
			} else {
				abmf.OpenServer(context.Background(), &wg)
			}
			time.Sleep(time.Second)
			vs.Quiesce()
			for n := 0; n < 3; n++ {
				if code, g := upd(a.N + n); code != 200 || g != 50 {
					out.Fail = append(out.Fail, fmt.Sprintf("update %d after the %s peer came up (it had been down for %d updates) answered %d, granted %d of 50 requested units", n+1, a.Outage, a.N, code, g))
				}
			}
			time.Sleep(time.Duration(a.Settle) * time.Second)
			vs.Quiesce()
			s := w.Snapshot(true)
			out.After = [2]int{s.Open, s.Gor}
		})
	}, nil)
	if o.Panic != "" || o.Res.Err != "" {
		out.Engine = o.Panic + o.Res.Err
	}
	if o.Res.Deadlock {
		out.Fail = append(out.Fail, fmt.Sprint("blocked forever: ", o.Res.Blocked))
	}
	return out, nil
}

// c18RejectingPeerJob: the account-balance peer answers every capabilities exchange with a negative result
// (DIAMETER_TOO_BUSY) and leaves it to the client to close the transport, as RFC 6733 allows. Every update completes
// (without a grant); the connections dialled for it must not stay open.
func c18RejectingPeerJob(t *testing.T, a c18RunArgs) (any, error) {
	var out c18RunOut
	cfg := WorldCfg{Accounts: []Account{{supiA, 1, "100000000", "1"}}, HorizonS: 24 * 3600, StepCap: 50_000_000, NoABMF: true}
	o := runWorld(t, cfg, nil, func(w *World) {
		vs.Go("T1", func() {
			mux := diam.NewServeMux()
			mux.HandleFunc("CER", func(c diam.Conn, m *diam.Message) {
				ans := m.Answer(diam.TooBusy)
				ans.NewAVP(avp.OriginHost, avp.Mbit, 0, datatype.DiameterIdentity("busy-abmf"))
				ans.NewAVP(avp.OriginRealm, avp.Mbit, 0, datatype.DiameterIdentity("go-diameter"))
				ans.WriteTo(c)
			})
			go diam.ListenAndServeTLS("127.0.0.1:3869", certPem, certKey, mux, nil)
			vs.Quiesce()
			h := w.ExecOps([]string{supiA}, []Op{mkCreate(0, "smf1")}, 1, false)
			if len(h.Sess) == 0 {
				out.Fail = append(out.Fail, "create failed")
				return
			}
			for n := 0; n < a.N; n++ {
				op := Op{K: "update", S: 0, MUs: []MU{{RG: 1, Req: 50, Conts: []Cont{{Vol: 0, Seq: int32(n)}}}}, Seq: int32(n)}
				r := w.Do("POST", ccBase+"/chargingdata/"+h.Sess[0].Ref+"/update", op.Request(supiA), nil)
				if r.Code != 200 {
					out.Fail = append(out.Fail, fmt.Sprintf("update %d answered %d", n, r.Code))
				}
				vs.Quiesce()
				time.Sleep(30 * time.Second)
				vs.Quiesce()
				s := w.Snapshot(true)
				out.Open = append(out.Open, s.Open+s.Half)
				out.Gor = append(out.Gor, s.Gor)
				out.Dials = s.Dials
			}
			time.Sleep(time.Duration(a.Settle) * time.Second)
			vs.Quiesce()
			s := w.Snapshot(true)
			out.After = [2]int{s.Open + s.Half, s.Gor}
		})
	}, nil)
	if o.Panic != "" || o.Res.Err != "" {
		out.Engine = o.Panic + o.Res.Err
	}
	if o.Res.Deadlock {
		out.Fail = append(out.Fail, fmt.Sprint("blocked forever: ", o.Res.Blocked))
	}
	return out, nil
}

// c18SubscribersJob: many different subscribers, each served once; resources after every subscriber.
func c18SubscribersJob(t *testing.T, a c18RunArgs) (any, error) {
	var out c18RunOut
	var supis []string
	cfg := WorldCfg{HorizonS: 24 * 3600, StepCap: 50_000_000}
	for i := 0; i < a.Subs; i++ {
		supi := fmt.Sprintf("imsi-20893%010d", 5000+i)
		supis = append(supis, supi)
		cfg.Accounts = append(cfg.Accounts, Account{supi, 1, "100000", "1"})
	}
	o := runWorld(t, cfg, nil, func(w *World) {
		vs.Go("T1", func() {
			for i := range supis {
				h := w.ExecOps(supis, []Op{mkCreate(i, "smf1"), usageOp("update", 0, 1, 50, 0, int32(10*i+1)), usageOp("release", 0, 1, -1, 50, int32(10*i+2), "FINAL")}, 1<<30, false)
				for _, st := range h.Steps {
					if st.Resp.Code/100 != 2 {
						out.Fail = append(out.Fail, fmt.Sprintf("subscriber %d: %s answered %d", i, st.Op.K, st.Resp.Code))
					}
				}
				vs.Quiesce()
				s := w.Snapshot(true)
				out.Open = append(out.Open, s.Open)
				out.Gor = append(out.Gor, s.Gor)
				out.Dials = s.Dials
			}
			time.Sleep(60 * time.Second)
			vs.Quiesce()
			s := w.Snapshot(true)
			out.After = [2]int{s.Open, s.Gor}
		})
	}, nil)
	if o.Panic != "" || o.Res.Err != "" {
		out.Engine = o.Panic + o.Res.Err
	}
	if o.Res.Deadlock {
		out.Fail = append(out.Fail, fmt.Sprint("blocked forever: ", o.Res.Blocked))
	}
	return out, nil
}

func init() {
	histOracles["C18"] = HistOracle{Step: c18Step, State: func(w *World, h *HistRun) (string, any) {
		k, info := apiState(w, h)
		// ghost state of the oracle: which kinds of request have already been completed once (and how often, up to 2)
		cnt := map[string]int{}
		for _, st := range h.Steps {
			if st.Resp.Code/100 == 2 {
				cnt[fmt.Sprintf("%s/%d/%s/%s", st.Op.K, len(st.Op.MUs), st.Op.Cons, st.Supi[len(st.Supi)-1:])]++
			}
		}
		for _, sig := range sortedKeys(cnt) {
			k += fmt.Sprintf("|%s=%d", sig, min(cnt[sig], 2))
		}
		return k, info
	}}
	jobHandlers["c18run"] = c18RunJob
	checks["C18"] = func(t *testing.T) int {
		rep := NewReport("C18")
		pool := NewPool(0)
		// (1) all short histories
		depth := 4
		if rep.Tier == "thorough" {
			depth = 7
		}
		st := BFSStats{}
		sp := BFSSpec{Name: "short-histories", Check: "C18", Oracle: "C18", Cfg: WorldCfg{Accounts: []Account{{supiA, 1, "100000", "1"}, {supiA, 2, "100000", "2"}, {supiB, 1, "100000", "1"}}},
			Supis: []string{supiA, supiB}, Prefix: []Op{mkCreate(0, "smf1"), mkCreate(1, "smf1")}, MaxDepth: depth, Gor: true,
			Alphabet: func(raw json.RawMessage, d int) (ops []Op) {
				var in apiInfo
				json.Unmarshal(raw, &in)
				for si, s := range in.Sess {
					if !s.Live {
						continue
					}
					g := s.LastGrant[1]
					ops = append(ops, Op{K: "update", S: si, MUs: []MU{{RG: 1, Req: 50, Conts: []Cont{{Vol: g, Seq: int32(10*d + si)}}}}, Seq: int32(d)})
					if s.U == 0 {
						ops = append(ops, Op{K: "update", S: si, MUs: []MU{{RG: 1, Req: 50, Conts: []Cont{{Vol: g, Seq: int32(10*d + si)}}}, {RG: 2, Req: 20, Conts: []Cont{{Vol: s.LastGrant[2], Seq: int32(10*d + si + 5)}}}}, Seq: int32(d)})
					}
				}
				ops = append(ops, Op{K: "recharge", U: 0, RG: 1, Amt: 10})
				// a rating group the peers know nothing about: they stay silent and the request completes through its timeouts
				for si, s := range in.Sess {
					if s.Live && s.U == 1 {
						ops = append(ops, Op{K: "update", S: si, MUs: []MU{{RG: 77, Req: 50, Conts: []Cont{{Vol: 0, Seq: int32(10*d + si + 7)}}}}, Seq: int32(d), Cons: "unanswered"})
					}
				}
				return
			}}
		RunBFS(pool, sp, rep, &st)
		// (2) long runs of the steady-state request
		ns := []int{10, 100}
		if rep.Tier == "thorough" {
			ns = []int{10, 100, 1000}
		}
		var jobs []Job
		var descr []c18RunArgs
		for _, n := range ns {
			for _, a := range []c18RunArgs{{N: n, UEs: 1}, {N: n, UEs: 2}, {N: n, UEs: 1, GapMs: 1000}, {N: min(n, 100), UEs: 1, GapMs: 20000}} {
				a.Settle = 60
				jobs = append(jobs, Job{Kind: "c18run", Args: mustJSON(a)})
				descr = append(descr, a)
			}
			// as many different subscribers, each served once
			sa := c18RunArgs{N: n, UEs: 1, Subs: n, Settle: 60}
			jobs = append(jobs, Job{Kind: "c18run", Args: mustJSON(sa)})
			descr = append(descr, sa)
			if n == 10 {
				ra := c18RunArgs{N: 10, UEs: 1, Outage: "abmf-rejects", Settle: 60}
				jobs = append(jobs, Job{Kind: "c18run", Args: mustJSON(ra)})
				descr = append(descr, ra)
			}
			if n <= 100 {
				// a peer that is down for n/2 + 15 updates (20, 65), then comes up
				for _, peer := range []string{"rf", "abmf"} {
					oa := c18RunArgs{N: n/2 + 15, UEs: 1, Outage: peer, Settle: 60}
					jobs = append(jobs, Job{Kind: "c18run", Args: mustJSON(oa)})
					descr = append(descr, oa)
				}
			}
		}
		pool.Timeout = 40 * time.Minute
		var runs []map[string]any
		exhaustive := !st.CapHit && st.EngineErrs == 0
		for i, r := range pool.RunAll(jobs) {
			a := descr[i]
			name := fmt.Sprintf("N=%d subscribers=%d gap=%dms", a.N, a.UEs, a.GapMs)
			if a.Subs > 0 {
				name = fmt.Sprintf("%d different subscribers, one session each", a.Subs)
			}
			if a.Outage != "" {
				name = fmt.Sprintf("%s peer down for %d updates, then up", a.Outage, a.N)
			}
			if a.Outage == "abmf-rejects" {
				name = fmt.Sprintf("account-balance peer rejects the capabilities exchange, %d updates", a.N)
			}
			if r.Crash != "" {
				rep.Finding("process-crash-or-timeout", name+": "+oneLine(r.Crash, 300), map[string]any{"job": json.RawMessage(jobs[i].Args), "kind": "c18run"})
				continue
			}
			var o c18RunOut
			json.Unmarshal(r.Out, &o)
			if r.Err != "" || o.Engine != "" {
				rep.EngineError(name + ": " + r.Err + o.Engine)
				exhaustive = false
				continue
			}
			for _, f := range o.Fail {
				rep.Finding("long-run-request-failed", name+": "+f, map[string]any{"job": json.RawMessage(jobs[i].Args), "kind": "c18run"})
			}
			maxOpen, maxGor := 0, 0
			for k := range o.Open {
				maxOpen, maxGor = max(maxOpen, o.Open[k]), max(maxGor, o.Gor[k])
			}
			// bound: what the first three requests needed, per subscriber, is never exceeded later
			base := 3 * a.UEs
			bOpen, bGor := 0, 0
			for k := 0; k < min(base, len(o.Open)); k++ {
				bOpen, bGor = max(bOpen, o.Open[k]), max(bGor, o.Gor[k])
			}
			if len(o.Open) > base && (maxOpen > bOpen || maxGor > bGor) {
				last := len(o.Open) - 1
				rule := "resources-grow-with-requests"
				if a.Outage == "abmf-rejects" {
					rule += "/peer-rejects-capabilities-exchange" // positively recognised known defect (go-diameter's dial)
				}
				rep.Finding(rule, fmt.Sprintf("%s: open connections after request %d: %d, after request %d: %d; goroutines %d -> %d; %d dials; after %d s of quiet: %d connections, %d goroutines",
					name, base, bOpen, last+1, o.Open[last], bGor, o.Gor[last], o.Dials, a.Settle, o.After[0], o.After[1]), map[string]any{"job": json.RawMessage(jobs[i].Args), "kind": "c18run"})
			}
			runs = append(runs, map[string]any{"run": name, "max_open_connections": maxOpen, "max_goroutines": maxGor, "dials": o.Dials, "after_settle": o.After})
		}
		slow, sexecs, sex := c18SlowPeers(rep, pool)
		if !sex {
			exhaustive = false
		}
		rep.Cov["slow_peers"] = slow
		rep.Cov["schedules"] = sexecs
		rep.Cov["states"] = st.States
		rep.Cov["transitions"] = st.Transitions + len(jobs) + sexecs
		rep.Cov["traces_validated_against_impl"] = st.Transitions + len(jobs) + sexecs
		rep.Cov["samples"] = append(st.Samples, map[string]any{"long_runs": runs})
		rep.Cov["exhaustive"] = exhaustive
		rep.Cov["depth_completed"] = st.MaxDepthDone
		rep.Cov["long_runs"] = runs
		rep.Cov["method"] = "all histories of updates (one and two rating groups) and recharges over two subscribers up to the depth bound, with the exact resource vector (open / half-closed modelled connections, goroutines of the world) compared before and after every repeated request at quiescence; plus long runs of N back-to-back (and spaced) updates whose resource series must not exceed what the first three requests per subscriber needed; plus (slow_peers) every placement of up to k delays (3 s and 6 s of virtual time) on the delivery of a Diameter message in either direction while two updates are processed, with the resource vector compared one minute after they completed"
		rep.Assumptions = append(rep.Assumptions, "connections are those of the modelled network (every Dial/Close of go-diameter goes through it); goroutines are counted from runtime.Stack restricted to the world's synctest bubble")
		return rep.Finish()
	}
}
