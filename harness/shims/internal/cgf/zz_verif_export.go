//go:build verif

package cgf

// Verification build only: the CDR transfer client without the FTP server process around it.

// VerifEnable puts the package into the state OpenServer leaves it in (transfer enabled, server address and
// credentials known) without starting the local FTP server; the connection is established by the first SendCDR.
func VerifEnable(addr string) {
	cgf = &Cgf{addr: addr, ftpConfig: FtpConfig{Version: 1, Accesses: []Access{{User: "admin", Pass: "free5gc", Fs: "os"}}}}
	CGFEnable = true
}

func VerifDisable() {
	cgf = nil
	CGFEnable = false
}
