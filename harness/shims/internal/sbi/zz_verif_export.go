//go:build verif

package sbi

import (
	"sync"

	"github.com/gin-gonic/gin"
)

// VerifRouter exposes the router built by NewServer to the verification harness (overlay only).
func VerifRouter(s *Server) *gin.Engine { return s.router }

// VerifStartServer runs the real startServer on an already closed http.Server: ListenAndServe(TLS)
// then returns http.ErrServerClosed at once, so scheme and certificate handling are executed without
// opening a socket (overlay only).
func VerifStartServer(s *Server) {
	_ = s.httpServer.Close()
	var wg sync.WaitGroup
	wg.Add(1)
	s.startServer(&wg)
}
