//go:build verif

package sbi

import "github.com/gin-gonic/gin"

// VerifRouter exposes the router built by NewServer to the verification harness (overlay only).
func VerifRouter(s *Server) *gin.Engine { return s.router }
