//go:build verif && go1.23

package zzverif

import (
	"crypto/rand"
	"crypto/rsa"
	"crypto/x509"
	"crypto/x509/pkix"
	"encoding/json"
	"encoding/pem"
	"fmt"
	"math/big"
	"os"
	"path/filepath"
	"reflect"
	"strings"
	"sync"
	"testing"
	"time"

	"github.com/golang-jwt/jwt/v5"

	chf_context "github.com/free5gc/chf/internal/context"
	"verif.local/vs"
)

// C13: with OAuth2 required every route of every enabled service answers 401 to unauthenticated
// requests and performs no processing. Bounded-exhaustive over service lists x routes x token kinds.

var (
	oauthOnce        sync.Once
	nrfKey, otherKey *rsa.PrivateKey
	nrfCertPath      string
)

func oauthSetup() {
	oauthOnce.Do(func() {
		nrfKey, _ = rsa.GenerateKey(rand.Reader, 2048)
		otherKey, _ = rsa.GenerateKey(rand.Reader, 2048)
		tmpl := x509.Certificate{SerialNumber: big.NewInt(7), Subject: pkix.Name{CommonName: "nrf-verif"},
			NotBefore: time.Date(1999, 1, 1, 0, 0, 0, 0, time.UTC), NotAfter: time.Date(2099, 1, 1, 0, 0, 0, 0, time.UTC)}
		der, _ := x509.CreateCertificate(rand.Reader, &tmpl, &tmpl, &nrfKey.PublicKey, nrfKey)
		nrfCertPath = filepath.Join(buildDir, "certs", fmt.Sprintf("nrf-%d.pem", os.Getpid()))
		os.MkdirAll(filepath.Dir(nrfCertPath), 0o755)
		os.WriteFile(nrfCertPath, pem.EncodeToMemory(&pem.Block{Type: "CERTIFICATE", Bytes: der}), 0o600)
	})
}

func mkToken(method jwt.SigningMethod, key any, scope string) string {
	claims := jwt.MapClaims{"iss": "nrf", "sub": "smf", "aud": "CHF", "scope": scope, "exp": int32(2000000000)}
	s, err := jwt.NewWithClaims(method, claims).SignedString(key)
	if err != nil {
		return "sign-error-" + err.Error()
	}
	return s
}

type c13Args struct {
	Services []string `json:"services"`
}

type c13Out struct {
	Routes  int       `json:"routes"`
	Probes  int       `json:"probes"`
	Control int       `json:"control"`
	Finds   []Finding `json:"finds"`
	Sample  []string  `json:"sample"`
}

func c13Job(t *testing.T, raw json.RawMessage) (any, error) {
	var a c13Args
	json.Unmarshal(raw, &a)
	oauthSetup()
	defer os.Remove(nrfCertPath + ".never")
	scopeAll := "nchf-convergedcharging nchf-offlineonlycharging nchf-spendinglimitcontrol"
	tokens := []struct{ name, hdr string }{
		{"absent", ""},
		{"garbage", "garbage"},
		{"bearer-not-a-jwt", "Bearer x"},
		{"bearer-empty", "Bearer "},
		{"hs256", "Bearer " + mkToken(jwt.SigningMethodHS256, []byte("secret"), scopeAll)},
		{"hs512-with-public-key-as-secret", "Bearer " + mkToken(jwt.SigningMethodHS512, x509.MarshalPKCS1PublicKey(&nrfKey.PublicKey), scopeAll)},
		{"none-alg", "Bearer " + mkToken(jwt.SigningMethodNone, jwt.UnsafeAllowNoneSignatureType, scopeAll)},
		{"rs256-nrf-key", "Bearer " + mkToken(jwt.SigningMethodRS256, nrfKey, scopeAll)},
		{"rs512-other-key", "Bearer " + mkToken(jwt.SigningMethodRS512, otherKey, scopeAll)},
		{"rs512-nrf-key-truncated-signature", "Bearer " + strings.TrimRight(mkToken(jwt.SigningMethodRS512, nrfKey, scopeAll), "=")[:300]},
		{"basic", "Basic dXNlcjpwYXNz"},
		{"twice/garbage", "garbage"},
		{"twice/rs512-other-key", "Bearer " + mkToken(jwt.SigningMethodRS512, otherKey, scopeAll)},
		// requests whose sender has already hung up (the request context is done when the router gets them)
		{"cancelled/absent", ""},
		{"cancelled/rs512-other-key", "Bearer " + mkToken(jwt.SigningMethodRS512, otherKey, scopeAll)},
	}
	control := "Bearer " + mkToken(jwt.SigningMethodRS512, nrfKey, scopeAll)
	// tokens tried right after the genuine one: its signature under another header and other claims, its first two
	// segments with another signature, and the plain invalid ones again
	cp := strings.Split(strings.TrimPrefix(control, "Bearer "), ".")
	otherTok := strings.Split(mkToken(jwt.SigningMethodRS512, otherKey, scopeAll+" extra"), ".")
	after := []struct{ name, hdr string }{
		{"genuine-signature-on-other-claims", "Bearer " + otherTok[0] + "." + otherTok[1] + "." + cp[2]},
		{"genuine-claims-with-other-signature", "Bearer " + cp[0] + "." + cp[1] + "." + otherTok[2]},
		{"absent", ""},
		{"rs512-other-key", "Bearer " + strings.Join(otherTok, ".")},
		{"genuine-token-without-bearer", strings.TrimPrefix(control, "Bearer ")},
	}
	out := c13Out{}
	cfg := WorldCfg{Accounts: []Account{{supiA, 1, "1000", "2"}}, Services: a.Services, NoServices: len(a.Services) == 0, NrfCert: nrfCertPath}
	o := runWorld(t, cfg, nil, func(w *World) {
		vs.Go("T1", func() {
			// a subscriber with a live session, a reservation and a registered notification URI exists (set up with OAuth2 off)
			cr := mkCreate(0, "smf1")
			_, loc, _ := w.P.ChargingDataCreate(cr.Request(supiA))
			ref := refOf(loc)
			up := Op{K: "update", MUs: []MU{{RG: 1, Req: 100, Conts: []Cont{{Vol: 0, Seq: 1}}}}}
			w.P.ChargingDataUpdate(up.Request(supiA), ref)
			vs.Quiesce()
			self := chf_context.GetSelf()
			self.OAuth2Required = true
			body := Op{K: "update", MUs: []MU{{RG: 1, Req: 100, Conts: []Cont{{Vol: 40, Seq: 2}}}}, Trig: []string{"VOLIMM"}}
			bodyJSON, _ := json.Marshal(body.Request(supiA))
			routes := w.Router.Routes()
			out.Routes = len(routes)
			for _, rt := range routes {
				path := rt.Path
				path = strings.ReplaceAll(path, ":ChargingDataRef", ref)
				path = strings.ReplaceAll(path, ":OfflineChargingDataRef", ref)
				path = strings.ReplaceAll(path, ":rechargingInfo", supiA+"_1")
				for strings.Contains(path, ":") { // any other parameter
					i := strings.Index(path, ":")
					j := strings.IndexAny(path[i:], "/")
					if j < 0 {
						path = path[:i] + "x"
					} else {
						path = path[:i] + "x" + path[i+j:]
					}
				}
				for _, tk := range tokens {
					for rep := 0; rep < 2; rep++ {
						pre := w.Snapshot(false)
						hdr := map[string]string{}
						if tk.hdr != "" {
							hdr["Authorization"] = tk.hdr
						}
						if strings.HasPrefix(tk.name, "twice/") {
							hdr["Authorization#2"] = tk.hdr // the header field sent twice
						}
						if strings.HasPrefix(tk.name, "cancelled/") {
							hdr["#cancelled"] = "1"
						}
						r := w.Do(rt.Method, path, string(bodyJSON), hdr)
						vs.Quiesce()
						post := w.Snapshot(false)
						out.Probes++
						what := fmt.Sprintf("services %v: %s %s with token %q (attempt %d)", a.Services, rt.Method, rt.Path, tk.name, rep+1)
						if r.Code != 401 {
							out.Finds = append(out.Finds, Finding{"not-401/" + tk.name, what + fmt.Sprintf(" answered %d %s", r.Code, oneLine(r.Body, 80))})
						}
						pv, qv := effectView(&pre), effectView(&post)
						pv["notes"], qv["notes"] = pre.Notes, post.Notes
						pv["dbGets"], qv["dbGets"] = pre.DBGets, post.DBGets
						pv["dials"], qv["dials"] = pre.Dials, post.Dials
						pv["types"], qv["types"] = pre.UEs[supiA].RatingType, post.UEs[supiA].RatingType
						if !reflect.DeepEqual(pv, qv) {
							out.Finds = append(out.Finds, Finding{"processed-although-rejected/" + tk.name, what + fmt.Sprintf(" answered %d but was processed: %s", r.Code, diffJSON(pv, qv))})
						}
						if r.Panic != "" {
							out.Finds = append(out.Finds, Finding{"panic", what + ": " + oneLine(r.Panic, 100)})
						}
						if len(out.Sample) < 3 && rep == 0 {
							out.Sample = append(out.Sample, what+fmt.Sprintf(" -> %d", r.Code))
						}
					}
				}
				// control: the probe reaches the handler with a token signed by the NRF key
				r := w.Do(rt.Method, path, string(bodyJSON), map[string]string{"Authorization": control})
				vs.Quiesce()
				out.Control++
				if r.Code == 401 {
					out.Finds = append(out.Finds, Finding{"control-token-rejected", fmt.Sprintf("services %v: %s %s with a valid NRF-signed RS512 token answered 401 %s (probe does not reach the handler)", a.Services, rt.Method, rt.Path, oneLine(r.Body, 100))})
				}
				// right after a genuine request: nothing remembered from it may authorise another token
				for _, tk := range after {
					pre := w.Snapshot(false)
					hdr := map[string]string{}
					if tk.hdr != "" {
						hdr["Authorization"] = tk.hdr
					}
					r := w.Do(rt.Method, path, string(bodyJSON), hdr)
					vs.Quiesce()
					post := w.Snapshot(false)
					out.Probes++
					what := fmt.Sprintf("services %v: %s %s with token %q right after a request with a genuine token", a.Services, rt.Method, rt.Path, tk.name)
					if r.Code != 401 {
						out.Finds = append(out.Finds, Finding{"not-401/after-genuine/" + tk.name, what + fmt.Sprintf(" answered %d %s", r.Code, oneLine(r.Body, 80))})
					}
					pv, qv := effectView(&pre), effectView(&post)
					pv["notes"], qv["notes"] = pre.Notes, post.Notes
					pv["dbGets"], qv["dbGets"] = pre.DBGets, post.DBGets
					pv["dials"], qv["dials"] = pre.Dials, post.Dials
					if !reflect.DeepEqual(pv, qv) {
						out.Finds = append(out.Finds, Finding{"processed-although-rejected/after-genuine/" + tk.name, what + fmt.Sprintf(" answered %d but was processed: %s", r.Code, diffJSON(pv, qv))})
					}
				}
			}
		})
	}, nil)
	if o.Panic != "" || o.Res.Err != "" {
		return nil, fmt.Errorf("engine: %s %s", o.Panic, o.Res.Err)
	}
	if o.Res.Deadlock {
		out.Finds = append(out.Finds, Finding{"blocked-forever", fmt.Sprint(o.Res.Blocked)})
	}
	for _, p := range o.ThPanics {
		out.Finds = append(out.Finds, Finding{"driver-panic", oneLine(p, 300)})
	}
	return out, nil
}

func permutations(items []string) (out [][]string) {
	var rec func(cur []string, rest []string)
	rec = func(cur []string, rest []string) {
		out = append(out, append([]string(nil), cur...))
		for i := range rest {
			nr := append(append([]string(nil), rest[:i]...), rest[i+1:]...)
			rec(append(cur, rest[i]), nr)
		}
	}
	rec(nil, items)
	return
}

func init() {
	jobHandlers["c13"] = c13Job
	checks["C13"] = func(t *testing.T) int {
		rep := NewReport("C13")
		pool := NewPool(0)
		lists := permutations([]string{"nchf-convergedcharging", "nchf-offlineonlycharging", "nchf-spendinglimitcontrol"})
		var jobs []Job
		for _, l := range lists {
			jobs = append(jobs, Job{Kind: "c13", Args: mustJSON(c13Args{Services: l})})
		}
		probes, routes, control := 0, 0, 0
		var samples []string
		exhaustive := true
		for i, r := range pool.RunAll(jobs) {
			if r.Crash != "" {
				rep.Finding("process-crash", fmt.Sprintf("service list %v: %s", lists[i], oneLine(r.Crash, 300)), map[string]any{"job": json.RawMessage(jobs[i].Args)})
				continue
			}
			if r.Err != "" {
				rep.EngineError(r.Err)
				exhaustive = false
				continue
			}
			var o c13Out
			json.Unmarshal(r.Out, &o)
			probes += o.Probes
			routes += o.Routes
			control += o.Control
			if len(samples) < 4 {
				samples = append(samples, o.Sample...)
			}
			for _, f := range o.Finds {
				rep.Finding(f.Rule, f.Detail, map[string]any{"job": json.RawMessage(jobs[i].Args), "kind": "c13", "case": f.Detail})
			}
		}
		per, sexecs, sex := c13Schedules(rep, pool)
		if !sex {
			exhaustive = false
		}
		rcov, rprobes, rex := c13Registration(rep, pool)
		if !rex {
			exhaustive = false
		}
		rep.Cov["registration"] = rcov
		probes += rprobes
		rep.Cov["concurrent_requests"] = per
		rep.Cov["schedules"] = sexecs
		rep.Cov["states"] = len(lists)
		rep.Cov["transitions"] = probes + control + sexecs
		rep.Cov["traces_validated_against_impl"] = probes + control + sexecs
		rep.Cov["evaluations"] = probes
		rep.Cov["distinct_nontrivial"] = probes / 2
		rep.Cov["rule"] = "every ordered list of distinct service names (16 incl. the empty list) x every (method, path) reported by gin's Engine.Routes() x 13 token kinds (two of them with the Authorization field sent twice) x 2 attempts (and 5 more right after a request with a genuine token: its signature under other claims, its claims under another signature, ...), against a world with a live session, a reservation and a notification URI; plus one control probe per route with a valid NRF-signed RS512 token; plus (concurrent_requests) every placement of up to k preemptions at statement-level scheduling points inside the authorisation code while a request with a valid token and one without are in flight on the recharging route"
		rep.Cov["service_lists"] = len(lists)
		rep.Cov["routes_probed"] = routes
		rep.Cov["control_probes"] = control
		rep.Cov["exhaustive"] = exhaustive
		if len(samples) == 0 {
			samples = []string{"(none)"}
		}
		rep.Cov["samples"] = samples
		rep.Assumptions = append(rep.Assumptions, "the NRF certificate and tokens are generated by the harness; routers are built by the real sbi.NewServer/newRouter")
		return rep.Finish()
	}
}
