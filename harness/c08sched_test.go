//go:build verif && go1.23

package zzverif

import (
	"encoding/json"
	"fmt"
	"reflect"
	"strings"
	"testing"
	"time"

	"github.com/fiorix/go-diameter/diam"
	"github.com/fiorix/go-diameter/diam/datatype"

	charging_code "github.com/free5gc/chf/ccs_diameter/code"
	cd "github.com/free5gc/chf/ccs_diameter/datatype"
	"verif.local/vs"
)

// C08, schedule part: two (three) peers on separate connections have one service-usage request each in flight at the
// rating server. Whatever the interleaving of the server's per-connection goroutines, every peer must receive the
// answer to its own request: own Session-Id, price / allowed units computed from its own units and its own tariff.

type c08Peer struct {
	Imsi  string
	Cost  uint32
	Sub   cd.RequestSubType
	Value uint32 // consumed units (debit) / monetary quota (reserve)
}

type c08PeerResult struct {
	Err     string
	Session string
	Price   uint32
	Allowed uint32
	Tariff  uint32
	HasSR   bool
}

func c08SchedScenario(peers []c08Peer) func() schedScenario {
	return func() schedScenario {
		cfg := WorldCfg{NoABMF: true, HorizonS: 60}
		for _, p := range peers {
			cfg.Accounts = append(cfg.Accounts, Account{"imsi-" + p.Imsi, 1, "1000", fmt.Sprint(p.Cost)})
		}
		return schedScenario{
			Cfg: cfg,
			Body: func(w *World, sctx *schedCtx) {
				sctx.Go("T1", func() {
					clis := make([]*diamClient, len(peers))
					for i := range peers {
						c, err := dialPeer("127.0.0.1:3868", "SUA")
						if err != nil {
							sctx.Results["setup"] = "dial: " + err.Error()
							return
						}
						clis[i] = c
					}
					vs.Quiesce()
					res := make([]c08PeerResult, len(peers))
					sctx.Free()
					var ths []*vs.Thread
					for i := range peers {
						i := i
						ths = append(ths, vs.Go(fmt.Sprintf("R%d", i+1), func() {
							p := peers[i]
							req := &cd.ServiceUsageRequest{SessionId: datatype.UTF8String(fmt.Sprintf("rate-%d", i+1)), OriginHost: "verif-client", OriginRealm: "go-diameter",
								DestinationRealm: "go-diameter", DestinationHost: "server", UserName: datatype.OctetString("CHF"), ActualTime: datatype.Time(time.Now()),
								SubscriptionId: &cd.SubscriptionId{SubscriptionIdType: cd.END_USER_IMSI, SubscriptionIdData: datatype.UTF8String(p.Imsi)},
								ServiceRating:  &cd.ServiceRating{ServiceIdentifier: 1, RequestSubType: p.Sub}}
							srv := reflect.ValueOf(req.ServiceRating).Elem()
							srv.FieldByName("ConsumedUnits").SetUint(uint64(p.Value))
							srv.FieldByName("MonetaryQuota").SetUint(uint64(p.Value))
							msg := diam.NewRequest(charging_code.ServiceUsageMessage, charging_code.Re_interface, nil)
							if err := msg.Marshal(req); err != nil {
								res[i].Err = "marshal: " + err.Error()
								return
							}
							if _, err := msg.WriteTo(clis[i].conn); err != nil {
								res[i].Err = "write: " + err.Error()
								return
							}
							select {
							case m := <-clis[i].answers:
								var sua cd.ServiceUsageResponse
								if err := m.Unmarshal(&sua); err != nil {
									res[i].Err = "undecodable answer: " + err.Error()
									return
								}
								res[i].Session = string(sua.SessionId)
								if sr := sua.ServiceRating; sr != nil {
									res[i].HasSR = true
									res[i].Price = uint32(reflect.ValueOf(sr).Elem().FieldByName("Price").Uint())
									res[i].Allowed = uint32(reflect.ValueOf(sr).Elem().FieldByName("AllowedUnits").Uint())
									if sr.MonetaryTariff != nil && sr.MonetaryTariff.RateElement != nil && sr.MonetaryTariff.RateElement.UnitCost != nil {
										uc := sr.MonetaryTariff.RateElement.UnitCost
										t := uint32(uc.ValueDigits)
										for e := 0; e < int(uc.Exponent); e++ {
											t *= 10
										}
										res[i].Tariff = t
									}
								}
							case <-time.After(20 * time.Second):
								res[i].Err = "no answer within 20 s (virtual)"
							}
						}))
					}
					for {
						all := true
						for _, th := range ths {
							if !th.Finished() {
								all = false
							}
						}
						if all {
							break
						}
						vs.Quiesce()
						time.Sleep(500 * time.Millisecond)
					}
					sctx.Stop()
					for _, c := range clis {
						c.conn.Close()
					}
					sctx.Results["res"] = res
				})
			},
			Observe: func(w *World, sctx *schedCtx) (string, []Finding) {
				var fs []Finding
				if s, _ := sctx.Results["setup"].(string); s != "" {
					return "setup failed: " + s, []Finding{{"engine-setup", s}}
				}
				res, _ := sctx.Results["res"].([]c08PeerResult)
				var obs []string
				for i, r := range res {
					p := peers[i]
					what := fmt.Sprintf("peer %d (subscriber %s, unit cost %d, sub-type %d, units/quota %d)", i+1, p.Imsi, p.Cost, p.Sub, p.Value)
					obs = append(obs, fmt.Sprintf("%d:%s/%v/p%d/a%d/t%d/%s", i+1, r.Session, r.HasSR, r.Price, r.Allowed, r.Tariff, r.Err))
					if r.Err != "" {
						fs = append(fs, Finding{"concurrent/server-does-not-answer", what + ": " + r.Err})
						continue
					}
					if r.Session != fmt.Sprintf("rate-%d", i+1) {
						fs = append(fs, Finding{"concurrent/answer-of-another-request", what + fmt.Sprintf(": the answer on its connection carries Session-Id %q", r.Session)})
					}
					if !r.HasSR || r.Tariff != p.Cost {
						fs = append(fs, Finding{"concurrent/foreign-tariff", what + fmt.Sprintf(": answered with tariff %d", r.Tariff)})
					}
					switch p.Sub {
					case cd.REQ_SUBTYPE_DEBIT:
						if r.Price != p.Value*p.Cost {
							fs = append(fs, Finding{"concurrent/debit-price-not-exact", what + fmt.Sprintf(": price %d, expected %d", r.Price, p.Value*p.Cost)})
						}
					case cd.REQ_SUBTYPE_RESERVE:
						if a := p.Value / p.Cost; r.Allowed != a || r.Price != a*p.Cost {
							fs = append(fs, Finding{"concurrent/reserve-rating-not-exact", what + fmt.Sprintf(": allowed %d price %d, expected allowed %d price %d", r.Allowed, r.Price, a, a*p.Cost)})
						}
					}
				}
				return strings.Join(obs, " "), fs
			},
			Elig: func(def, alt string) bool {
				if alt != "PARK" {
					return false
				}
				// the server side: its reads, its database look-ups, its writes (the peers' own operations are symmetric)
				k := kindOf(def)
				return strings.HasPrefix(k, "db.") || k == "net.Read" || strings.HasPrefix(k, "net.Write") || strings.HasPrefix(k, "d.")
			},
		}
	}
}

var c08SchedScens = map[string][]c08Peer{
	"c08-debit-debit":     {{"208930000000001", 2, cd.REQ_SUBTYPE_DEBIT, 100}, {"208930000000002", 7, cd.REQ_SUBTYPE_DEBIT, 30}},
	"c08-reserve-debit":   {{"208930000000001", 3, cd.REQ_SUBTYPE_RESERVE, 100}, {"208930000000002", 7, cd.REQ_SUBTYPE_DEBIT, 30}},
	"c08-reserve-reserve": {{"208930000000001", 3, cd.REQ_SUBTYPE_RESERVE, 100}, {"208930000000002", 7, cd.REQ_SUBTYPE_RESERVE, 500}},
	"c08-three-peers":     {{"208930000000001", 2, cd.REQ_SUBTYPE_DEBIT, 100}, {"208930000000002", 7, cd.REQ_SUBTYPE_RESERVE, 500}, {"208930000000003", 5, cd.REQ_SUBTYPE_DEBIT, 11}},
}

func init() {
	for name, peers := range c08SchedScens {
		schedScenarios[name] = c08SchedScenario(peers)
	}
}

// c08Schedules explores the scenarios and returns the per-scenario statistics.
func c08Schedules(rep *Report, pool *Pool) (per []map[string]any, execs int, exhaustive bool) {
	exhaustive = true
	for _, name := range sortedKeys(c08SchedScens) {
		bound, capExecs := 2, 4000
		if len(c08SchedScens[name]) > 2 {
			bound = 1
		}
		if rep.Tier == "thorough" {
			bound, capExecs = bound+1, 60000
		}
		st := SchedStats{}
		ExploreSchedules(pool, rep, name, bound, capExecs, &st)
		execs += st.Execs
		if st.Capped > 0 || st.Diverged > 0 {
			exhaustive = false
		}
		b, _ := json.Marshal(st.Outcomes)
		per = append(per, map[string]any{"scenario": name, "peers": len(c08SchedScens[name]), "deviation_bound": bound, "executions": st.Execs, "by_deviations": st.ByBound,
			"deviation_points_in_default_schedule": st.EligPoints, "distinct_outcomes": len(st.Outcomes), "capped_children": st.Capped, "engine_errors": st.Diverged, "outcomes": json.RawMessage(b)})
	}
	return
}

// C08, CHF side of "the tariff in the answer decodes at the CHF to the same unit cost the server applied": for every
// stored unit-cost string the real CHF processes an online update (its own rating client, its own decoding in
// getUnitCost) and the unit cost it then works with is compared with the price the server puts on one consumed unit.

type c08ChfOut struct {
	Finds   []Finding `json:"finds"`
	Checked int       `json:"checked"`
}

func c08ChfJob(t *testing.T, raw json.RawMessage) (any, error) {
	var a c08Args
	json.Unmarshal(raw, &a)
	var out c08ChfOut
	cfg := WorldCfg{}
	var supis []string
	for i, c := range a.Costs {
		supi := fmt.Sprintf("imsi-20893000000%04d", i)
		supis = append(supis, supi)
		cfg.Accounts = append(cfg.Accounts, Account{supi, 1, "100000", c})
	}
	o := runWorld(t, cfg, nil, func(w *World) {
		vs.Go("T1", func() {
			for i, cost := range a.Costs {
				// what the server applies: the price of one consumed unit
				cli, err := dialPeer("127.0.0.1:3868", "SUA")
				if err != nil {
					out.Finds = append(out.Finds, Finding{"engine-setup", err.Error()})
					return
				}
				req := &cd.ServiceUsageRequest{SessionId: "rate-1", OriginHost: "verif-client", OriginRealm: "go-diameter", DestinationRealm: "go-diameter", DestinationHost: "server",
					UserName: datatype.OctetString("CHF"), ActualTime: datatype.Time(time.Now()),
					SubscriptionId: &cd.SubscriptionId{SubscriptionIdType: cd.END_USER_IMSI, SubscriptionIdData: datatype.UTF8String(strings.TrimPrefix(supis[i], "imsi-"))},
					ServiceRating:  &cd.ServiceRating{ServiceIdentifier: 1, RequestSubType: cd.REQ_SUBTYPE_DEBIT}}
				reflect.ValueOf(req.ServiceRating).Elem().FieldByName("ConsumedUnits").SetUint(1)
				m, _ := cli.exchange(charging_code.ServiceUsageMessage, req)
				cli.conn.Close()
				if m == nil {
					continue // (an unanswered request is the sequential part's finding)
				}
				var sua cd.ServiceUsageResponse
				if m.Unmarshal(&sua) != nil || sua.ServiceRating == nil {
					continue
				}
				applied := reflect.ValueOf(sua.ServiceRating).Elem().FieldByName("Price").Uint()
				// what the CHF decodes: an online update through the real processor
				h := w.ExecOps(supis, []Op{func() Op { c := mkCreate(i, "smf1"); return c }(), usageOp("update", 0, 1, 10, 0, int32(100+i))}, 1<<30, false)
				_ = h
				s := w.Snapshot(false)
				got, ok := s.UEs[supis[i]].UnitCost[1]
				if !ok {
					continue
				}
				out.Checked++
				if uint64(got) != applied {
					out.Finds = append(out.Finds, Finding{"chf-decodes-other-unit-cost-than-applied/" + costClass(cost), fmt.Sprintf("stored unit cost %q: the rating server prices one unit at %d, the CHF works with a unit cost of %d", cost, applied, got)})
				}
				// release the session again (keeps the histories independent)
				w.ExecOps(supis, nil, 1<<30, false)
			}
		})
	}, nil)
	if o.Panic != "" || o.Res.Err != "" {
		return nil, fmt.Errorf("engine: %s %s", o.Panic, o.Res.Err)
	}
	return out, nil
}

func init() { jobHandlers["c08chf"] = c08ChfJob }
