//go:build verif && go1.23

package zzverif

import (
	"encoding/json"
	"fmt"
	"sort"
	"strings"
	"testing"
	"time"

	"verif.local/vs"
)

// C09: concurrent requests behave like some serial order; no crash, no deadlock.
// C10 (schedule part): concurrent creates return pairwise different references.
//
// A scenario = sequential set-up operations, then 2-3 requests issued concurrently by their own driver
// threads, then sequential probe operations (update + release of every acknowledged session).
// Oracle: (i) nothing blocks forever / panics / kills the process; (ii) the final observation equals the
// observation of some serial execution of the concurrent requests (the serial reference is the
// implementation itself, run in every permutation); (iii) C02's placement oracle on the final records.

type concScenario struct {
	Name     string
	Accounts []Account
	Pre      []Op
	Conc     []Op
	Post     []Op // sequential requests after the concurrent ones have completed (before the probes)
	LocalSeq uint64
	Supis    []string
	Cgf      bool // CDR transfer to the (modelled) billing domain enabled
	RaceOnly bool // too many concurrent requests for the explorer's bound: free-running pass only
	// Reentrant: the consumer reacts to every re-authorisation notification by an update (no usage, 10 units) of the
	// subscriber's first session, sent from inside its notification handler, before it answers the notification
	Reentrant bool
}

func usageOp(k string, s int, rg int32, req int32, used int32, tag int32, trig ...string) Op {
	return Op{K: k, S: s, MUs: []MU{{RG: rg, Req: req, Conts: []Cont{{Vol: used, Up: used / 2, Down: used - used/2, Seq: tag}}}}, Trig: trig, Seq: tag}
}

func concScenarios() []concScenario {
	one := []Account{{supiA, 1, "1000", "2"}, {supiB, 1, "500", "1"}}
	crA1, crA2, crB := mkCreate(0, "smf1"), mkCreate(0, "smf2"), mkCreate(1, "smf1")
	crA2.CID = 11
	upd0 := usageOp("update", 0, 1, 100, 0, 500)
	return []concScenario{
		{Name: "create-create-new-supi", Accounts: one, Conc: []Op{crA1, crA2}},
		{Name: "create-create-two-subscribers", Accounts: one, Conc: []Op{crA1, crB}},
		{Name: "create-create-known-supi", Accounts: one, Pre: []Op{mkCreate(0, "smf0")}, Conc: []Op{crA1, crA2}},
		{Name: "create-create-same-consumer", Accounts: one, Pre: []Op{mkCreate(0, "smf0")}, Conc: []Op{crA1, func() Op { c := mkCreate(0, "smf1"); c.CID = 12; return c }()}},
		{Name: "create-create-same-consumer-new-supi", Accounts: one, Conc: []Op{crA1, func() Op { c := mkCreate(0, "smf1"); c.CID = 12; return c }()}},
		{Name: "create-create-prefix-supis", Supis: []string{"imsi-1", "imsi-11"}, Conc: []Op{mkCreate(0, "1x"), mkCreate(1, "x")}},
		{Name: "update-update-same-session", Accounts: one, Pre: []Op{crA1, upd0}, Conc: []Op{usageOp("update", 0, 1, 100, 60, 600), usageOp("update", 0, 1, 50, 40, 601)}},
		{Name: "update-update-two-sessions", Accounts: one, Pre: []Op{crA1, crA2, upd0}, Conc: []Op{usageOp("update", 0, 1, 100, 100, 600), usageOp("update", 1, 1, 50, 0, 601)}},
		{Name: "update-release", Accounts: one, Pre: []Op{crA1, upd0}, Conc: []Op{usageOp("update", 0, 1, 100, 60, 600), usageOp("release", 0, 1, -1, 40, 601, "FINAL")}},
		{Name: "release-release", Accounts: one, Pre: []Op{crA1, upd0}, Conc: []Op{usageOp("release", 0, 1, -1, 40, 600, "FINAL"), usageOp("release", 0, 1, -1, 40, 601, "FINAL")}},
		{Name: "update-recharge", Accounts: []Account{{supiA, 1, "150", "2"}}, Pre: []Op{crA1, usageOp("update", 0, 1, 100, 0, 500)}, Conc: []Op{usageOp("update", 0, 1, 100, 75, 600), {K: "recharge", U: 0, RG: 1, Amt: 400}}},
		{Name: "update-notify", Accounts: []Account{{supiA, 1, "150", "2"}}, Pre: []Op{crA1, usageOp("update", 0, 1, 100, 0, 500), {K: "recharge", U: 0, RG: 1, Amt: 400}}, Conc: []Op{usageOp("update", 0, 1, 100, 75, 600), {K: "recharge", U: 0, RG: 1}}},
		{Name: "update-update-two-subscribers", Accounts: one, Pre: []Op{crA1, crB, upd0, usageOp("update", 1, 1, 70, 0, 501)}, Conc: []Op{usageOp("update", 0, 1, 100, 100, 600), usageOp("update", 1, 1, 30, 70, 601)}},
		{Name: "partial-record-two-subscribers", Accounts: one, Pre: []Op{crA1, crB}, Conc: []Op{usageOp("update", 0, 1, 100, 0, 600, "VOLIMM"), usageOp("update", 1, 1, 30, 0, 601, "VOLIMM")}},
		{Name: "create-create-create", Accounts: one, Conc: []Op{crA1, crA2, crB}},
		// a one-time event of a subscriber next to an update of one of its sessions
		{Name: "event-update", Accounts: one, Pre: []Op{crA1, upd0}, Conc: []Op{func() Op {
			c := mkCreate(0, "smf-ev")
			c.OTE = "IEC"
			c.MUs = []MU{{RG: 1, Req: -1, Conts: []Cont{{Vol: 5, Up: 2, Down: 3, Seq: 700, Offline: true}}}}
			return c
		}(), usageOp("update", 0, 1, 100, 60, 600)}},
		// a create that is rejected after the record counter has moved (pDUSessionChargingInformation without pduSessionInformation)
		// next to a successful create of another subscriber, then one more create of that subscriber and consumer
		{Name: "rejected-create-create", Accounts: one, Conc: []Op{func() Op { c := mkCreate(0, "smf1"); c.NoPSI = true; return c }(), crB},
			Post: []Op{func() Op { c := mkCreate(1, "smf1"); c.CID = 13; return c }()}},
		// ... next to a successful create of the same (so far unknown) subscriber
		{Name: "rejected-create-create-same-subscriber", Accounts: one, Conc: []Op{func() Op { c := mkCreate(0, "smf1"); c.NoPSI = true; return c }(), crA2}},
		{Name: "rejected-create-update", Accounts: one, Pre: []Op{crA1, upd0}, Conc: []Op{func() Op { c := mkCreate(0, "smf3"); c.NoPSI = true; c.CID = 14; return c }(), usageOp("update", 0, 1, 100, 60, 600)}},
		// CDR transfer enabled: every request ends by sending the subscriber's file over the one FTP connection the CHF keeps
		{Name: "cgf/create-create-two-subscribers", Accounts: one, Cgf: true, Conc: []Op{crA1, crB}},
		{Name: "cgf/update-update-two-subscribers", Accounts: one, Cgf: true, Pre: []Op{crA1, crB, upd0, usageOp("update", 1, 1, 70, 0, 501)}, Conc: []Op{usageOp("update", 0, 1, 100, 100, 600), usageOp("update", 1, 1, 30, 70, 601)}},
		{Name: "cgf/create-update-same-subscriber", Accounts: one, Cgf: true, Pre: []Op{crA1, upd0}, Conc: []Op{crA2, usageOp("update", 0, 1, 100, 60, 600)}},
		// ... after the billing domain has closed the connection: the first request that notices logs in again
		{Name: "cgf/update-update-after-connection-loss", Accounts: one, Cgf: true, Pre: []Op{crA1, crB, upd0, usageOp("update", 1, 1, 70, 0, 501), {K: "cgf-drop"}}, Conc: []Op{usageOp("update", 0, 1, 100, 100, 600), usageOp("update", 1, 1, 30, 70, 601)}},
		// four subscribers closing a partial record at the same time (free-running pass only)
		func() concScenario {
			sc := concScenario{Name: "partial-record-four-subscribers", RaceOnly: true, Supis: []string{supiA, supiB, "imsi-208930000000003", "imsi-208930000000004"}}
			for u, s := range sc.Supis {
				sc.Accounts = append(sc.Accounts, Account{s, 1, "1000", "1"})
				c := mkCreate(u, "smf1")
				c.CID = int32(20 + u)
				sc.Pre = append(sc.Pre, c)
				sc.Conc = append(sc.Conc, usageOp("update", u, 1, 50, 0, int32(600+u), "VOLIMM"))
			}
			return sc
		}(),
		func() concScenario {
			sc := concScenario{Name: "create-four-subscribers", RaceOnly: true, Supis: []string{supiA, supiB, "imsi-208930000000003", "imsi-208930000000004"}}
			for u, s := range sc.Supis {
				sc.Accounts = append(sc.Accounts, Account{s, 1, "1000", "1"})
				c := mkCreate(u, "smf1")
				c.CID = int32(20 + u)
				sc.Conc = append(sc.Conc, c)
			}
			return sc
		}(),
		func() concScenario {
			sc := concScenario{Name: "update-release-four-subscribers", RaceOnly: true, Cgf: true, Supis: []string{supiA, supiB, "imsi-208930000000003", "imsi-208930000000004"}}
			for u, s := range sc.Supis {
				sc.Accounts = append(sc.Accounts, Account{s, 1, "1000", "1"})
				c := mkCreate(u, "smf1")
				c.CID = int32(20 + u)
				sc.Pre = append(sc.Pre, c)
				if u%2 == 0 {
					sc.Conc = append(sc.Conc, usageOp("update", u, 1, 50, 0, int32(600+u)))
				} else {
					sc.Conc = append(sc.Conc, usageOp("release", u, 1, -1, 0, int32(600+u), "FINAL"))
				}
			}
			return sc
		}(),
		// a consumer that reacts to the notification by an update sent from inside its notification handler, while another
		// update of the same session / of the subscriber's other session is in flight
		{Name: "notify-reentrant-update", Accounts: one, Reentrant: true, Pre: []Op{func() Op { c := mkCreate(0, "smf1"); c.Notify = "http://smf-reentrant.example/notify"; return c }(), upd0},
			Conc: []Op{{K: "recharge", U: 0, RG: 1}, usageOp("update", 0, 1, 100, 60, 600)}},
		{Name: "update-update-recharge", Accounts: []Account{{supiA, 1, "150", "2"}}, Pre: []Op{crA1, crA2, usageOp("update", 0, 1, 100, 0, 500)}, Conc: []Op{usageOp("update", 0, 1, 100, 75, 600), usageOp("update", 1, 1, 20, 0, 601), {K: "recharge", U: 0, RG: 1, Amt: 400}}},
	}
}

type concObs struct {
	Resp  []string          `json:"resp"` // one entry per concurrent request
	Probe []string          `json:"probe"`
	Bal   map[string]string `json:"bal"`
	UEs   map[string]string `json:"ues"`
	Seq   uint64            `json:"seq"`
	Cgf   string            `json:"cgf,omitempty"` // files at the billing domain that differ from / are missing compared with the CHF's
}

func respBrief(st Step) string {
	var us []string
	for _, u := range st.Units {
		us = append(us, fmt.Sprintf("rg%d:g%d:%s", u.RG, u.Granted, u.FUI))
	}
	ref := ""
	if st.Op.K == "create" {
		ref = " ref=" + refOf(st.Resp.Location)
	}
	return fmt.Sprintf("%s->%d%s %s", st.Op.K, st.Resp.Code, ref, strings.Join(us, ","))
}

func concScenarioFn(sc concScenario, perm []int, noCredit ...bool) func() schedScenario {
	if len(noCredit) > 0 && noCredit[0] {
		// the same requests in a world where the external credit never happens (the notification is still sent)
		conc := append([]Op(nil), sc.Conc...)
		for i := range conc {
			if conc[i].K == "recharge" {
				conc[i].Amt = 0
			}
		}
		sc.Conc = conc
	}
	return func() schedScenario {
		supis := []string{supiA, supiB}
		if sc.Supis != nil {
			supis = sc.Supis
		}
		return schedScenario{
			Cfg: WorldCfg{Accounts: sc.Accounts, LocalSeq: sc.LocalSeq, HorizonS: 120, Cgf: sc.Cgf},
			Body: func(w *World, sctx *schedCtx) {
				sctx.Go("T1", func() {
					if sc.Reentrant {
						var codes []int
						reentrantFixed = true
						reentrantConsumer = func() {
							if hh, _ := sctx.Results["pre"].(*HistRun); hh != nil && len(hh.Sess) > 0 {
								se := hh.Sess[0]
								op := usageOp("update", 0, 1, 10, 0, int32(7000+len(codes)))
								codes = append(codes, w.Do("POST", ccBase+"/chargingdata/"+se.Ref+"/update", op.Request(se.Supi), nil).Code)
								sctx.Results["reentrant"] = codes
							}
						}
						defer func() { reentrantFixed, reentrantConsumer = false, nil }()
					}
					h := w.ExecOps(supis, sc.Pre, len(sc.Pre), false)
					sctx.Results["pre"] = h
					nPre := len(h.Sess)
					results := make([]Step, len(sc.Conc))
					fileWrites = nil
					if perm != nil {
						// serial reference: the concurrent requests one after the other in the given order
						for _, k := range perm {
							hh := &HistRun{Sess: h.Sess}
							*hh = *h
							r := w.execMore(supis, h, []Op{sc.Conc[k]})
							results[k] = r[0]
						}
					} else {
						vs.Quiesce()
						sctx.Free()
						var ths []*vs.Thread
						var newSess [][]*Sess
						newSess = make([][]*Sess, len(sc.Conc))
						for k := range sc.Conc {
							k := k
							ths = append(ths, vs.Go(fmt.Sprintf("R%d", k+1), func() {
								hk := &HistRun{Sess: append([]*Sess(nil), h.Sess[:nPre]...)}
								r := w.execMore(supis, hk, []Op{sc.Conc[k]})
								results[k] = r[0]
								newSess[k] = hk.Sess[nPre:]
							}))
						}
						for {
							all := true
							for _, th := range ths {
								if !th.Finished() {
									all = false
								}
							}
							if all {
								break
							}
							vs.Quiesce()
							time.Sleep(500 * time.Millisecond)
						}
						sctx.Stop()
						for k := range sc.Conc {
							h.Sess = append(h.Sess, newSess[k]...)
						}
					}
					vs.Quiesce()
					// sequential requests after the concurrent phase (their creates are named <ref-of-request-k> as well)
					for _, op := range sc.Post {
						results = append(results, w.execMore(supis, h, []Op{op})[0])
					}
					vs.Quiesce()
					sctx.Results["results"] = results
					// probes: every acknowledged, unreleased session can be updated and released
					var probes []Step
					type pr struct {
						se  *Sess
						idx int
					}
					var live []pr
					for i, se := range h.Sess {
						if se.Live {
							live = append(live, pr{se, i})
						}
					}
					sort.Slice(live, func(a, b int) bool { return live[a].se.Ref < live[b].se.Ref })
					for n, l := range live {
						used := l.se.LastGrant[1]
						p1 := w.execMore(supis, h, []Op{usageOp("update", l.idx, 1, 10, used, int32(900+2*n))})
						p2 := w.execMore(supis, h, []Op{usageOp("release", l.idx, 1, -1, l.se.LastGrant[1], int32(901+2*n), "FINAL")})
						probes = append(probes, p1[0], p2[0])
					}
					sctx.Results["probes"] = probes
					sctx.Results["hist"] = h
				})
			},
			Observe: func(w *World, sctx *schedCtx) (string, []Finding) {
				var fs []Finding
				var o concObs
				results, _ := sctx.Results["results"].([]Step)
				canon := map[string]string{}
				for k, st := range results {
					if st.Op.K == "create" && st.Resp.Code == 201 {
						// the reference's counter suffix carries no meaning: name references after the request that obtained them
						if r := refOf(st.Resp.Location); canon[r] == "" {
							canon[r] = fmt.Sprintf("<ref-of-request-%d>", k+1)
						}
					}
				}
				sub := func(x string) string {
					for r, c := range canon {
						x = strings.ReplaceAll(x, r, c)
					}
					return x
				}
				for _, st := range results {
					o.Resp = append(o.Resp, sub(respBrief(st)))
					if st.Resp.Panic != "" {
						fs = append(fs, Finding{"handler-panic", oneLine(st.Resp.Panic, 200)})
					}
				}
				probes, _ := sctx.Results["probes"].([]Step)
				for _, st := range probes {
					o.Probe = append(o.Probe, respBrief(st))
					if st.Resp.Code/100 != 2 {
						fs = append(fs, Finding{"acknowledged-session-unusable", fmt.Sprintf("probe %s on reference %q answered %d %s", st.Op.K, st.Ref, st.Resp.Code, oneLine(st.Resp.Body, 100))})
					}
				}
				if rc, _ := sctx.Results["reentrant"].([]int); len(rc) > 0 {
					o.Probe = append(o.Probe, fmt.Sprintf("consumer-updates=%v", rc))
					for _, c := range rc {
						if c != 200 {
							fs = append(fs, Finding{"update-from-notification-handler/" + sc.Name, fmt.Sprintf("the consumer answered the notification by an update of its session, which was answered %d", c)})
						}
					}
				}
				s := w.Snapshot(false)
				o.Bal = s.Bal
				o.Seq = s.LocalSeq
				if s.Cgf != nil {
					o.Cgf = fmt.Sprintf("stale=%v missing=%v", s.Cgf.Stale, s.Cgf.Missing)
					if len(s.Cgf.BadStors) > 0 {
						fs = append(fs, Finding{"cdr-transfer/file-sent-while-being-rewritten/" + sc.Name, fmt.Sprintf("a file that is not a complete CDR file was uploaded to the billing domain (the transfer read it while another request was rewriting it): %v", s.Cgf.BadStors)})
					}
					if len(s.Cgf.Overlaps) > 0 {
						fs = append(fs, Finding{"cdr-transfer/connection-used-by-two-requests-at-once/" + sc.Name, fmt.Sprintf("the FTP control connection to the billing domain carried two commands at once (its replies are then read by the wrong request): %v", s.Cgf.Overlaps)})
					}
				}
				_ = sub
				o.UEs = map[string]string{}
				for supi, u := range s.UEs {
					ss := append([]string(nil), u.Sessions...)
					for i := range ss {
						ss[i] = sub(ss[i])
					}
					sort.Strings(ss)
					o.UEs[supi] = fmt.Sprintf("res=%v type=%v records=%d sessions=%v", u.Reserved, u.RatingType, u.Records, ss)
				}
				// duplicate references among the concurrent creates (C10)
				seen := map[string]int{}
				for k, st := range results {
					if st.Op.K == "create" && st.Resp.Code == 201 {
						r := refOf(st.Resp.Location)
						if j, dup := seen[r]; dup {
							fs = append(fs, Finding{"duplicate-reference/concurrent-creates/" + sc.Name, fmt.Sprintf("concurrent creates %d and %d were both answered 201 with the reference %q", j+1, k+1, r)})
						}
						seen[r] = k
					}
				}
				// placement of every reported container: per session, the multiset of recorded containers equals the multiset
				// of containers reported on it in accepted requests (two concurrent reports may be recorded in either order)
				if h, ok := sctx.Results["hist"].(*HistRun); ok && h != nil && len(fs) == 0 {
					want := map[string][]int{}
					add := func(st Step) {
						if st.Resp.Code/100 != 2 {
							return
						}
						ref := st.Ref
						if st.Op.K == "create" {
							ref = refOf(st.Resp.Location)
						}
						for _, m := range st.Op.MUs {
							for _, c := range m.containers() {
								want[ref] = append(want[ref], int(c.Seq))
							}
						}
					}
					for _, st := range h.Steps {
						add(st)
					}
					if rc, _ := sctx.Results["reentrant"].([]int); len(rc) > 0 && len(h.Sess) > 0 {
						// the containers of the consumer's own updates (sent from its notification handler)
						for k, c := range rc {
							if c/100 == 2 {
								want[h.Sess[0].Ref] = append(want[h.Sess[0].Ref], 7000+k)
							}
						}
					}
					if perm == nil { // (in the serial reference runs the requests are already part of the history)
						for _, st := range results[:min(len(results), len(sc.Conc))] {
							add(st)
						}
					}
					got := map[string][]int{}
					for supi := range s.UEs {
						recs, _ := supiRecords(supi)
						for _, r := range recs {
							v, _ := viewRecord(r)
							for _, tg := range v.Tags {
								got[v.Sess] = append(got[v.Sess], int(tg))
							}
						}
					}
					for ref := range want {
						sort.Ints(want[ref])
						sort.Ints(got[ref])
						if fmt.Sprint(want[ref]) != fmt.Sprint(got[ref]) {
							fs = append(fs, Finding{"records/usage-not-recorded-exactly-once", fmt.Sprintf("session %s: containers reported %v, recorded %v", ref, want[ref], got[ref])})
						}
					}
					for ref := range got {
						if _, ok := want[ref]; !ok && len(got[ref]) > 0 {
							fs = append(fs, Finding{"records/usage-in-foreign-record", fmt.Sprintf("record of session %s holds containers %v that were never reported on it", ref, got[ref])})
						}
					}
				}
				b, _ := json.Marshal(o)
				return string(b), fs
			},
			Elig: func(def, alt string) bool {
				if alt != "PARK" {
					return false
				}
				switch k := kindOf(def); {
				case k == "Lock", k == "Unlock", strings.HasPrefix(k, "Map."), strings.HasPrefix(k, "db."), strings.HasPrefix(k, "fs."), strings.HasPrefix(k, "ftp."), k == "start", k == "d.WLock":
					return true
				}
				return false
			},
		}
	}
}

// execMore runs more operations on an existing history (same bookkeeping as ExecOps, no snapshots).
func (w *World) execMore(supis []string, h *HistRun, ops []Op) []Step {
	// ExecOps starts a fresh HistRun; here the session list is shared
	tmp := w.execOn(supis, h, ops)
	return tmp
}

func init() {
	for _, sc := range concScenarios() {
		sc := sc
		if sc.RaceOnly {
			continue
		}
		schedScenarios["c09-"+sc.Name] = concScenarioFn(sc, nil)
		for _, perm := range permutationsInt(len(sc.Conc)) {
			schedScenarios["c09-"+sc.Name+"#"+permKey(perm)] = concScenarioFn(sc, perm)
			if hasCredit(sc) {
				schedScenarios["c09-"+sc.Name+"#"+permKey(perm)+"!nocredit"] = concScenarioFn(sc, perm, true)
			}
		}
	}
	checks["C09"] = func(t *testing.T) int { return concCheck(t, "C09") }
	c10Schedules = func(t *testing.T, rep *Report, pool *Pool) any {
		return runConc(t, rep, pool, []string{"create-create-new-supi", "create-create-two-subscribers", "create-create-known-supi", "create-create-same-consumer", "create-create-same-consumer-new-supi", "create-create-prefix-supis", "create-create-create", "rejected-create-create"})
	}
}

func hasCredit(sc concScenario) bool {
	for _, op := range sc.Conc {
		if op.K == "recharge" && op.Amt != 0 {
			return true
		}
	}
	return false
}

func permKey(p []int) string {
	var s []string
	for _, x := range p {
		s = append(s, fmt.Sprint(x))
	}
	return strings.Join(s, "")
}

func permutationsInt(n int) (out [][]int) {
	var rec func(cur []int, used []bool)
	rec = func(cur []int, used []bool) {
		if len(cur) == n {
			out = append(out, append([]int(nil), cur...))
			return
		}
		for i := 0; i < n; i++ {
			if !used[i] {
				used[i] = true
				rec(append(cur, i), used)
				used[i] = false
			}
		}
	}
	rec(nil, make([]bool, n))
	return
}

func runConc(t *testing.T, rep *Report, pool *Pool, names []string) []map[string]any {
	var per []map[string]any
	bound := 2
	capExecs := 2500
	if rep.Tier == "thorough" {
		bound, capExecs = 3, 60000
	}
	for _, sc := range concScenarios() {
		if (names != nil && !containsStr(names, sc.Name)) || sc.RaceOnly {
			continue
		}
		b := bound
		if len(sc.Conc) > 2 && rep.Tier != "thorough" {
			b = 1
		}
		// serial references
		allowed := map[string]string{}
		var jobs []Job
		perms := permutationsInt(len(sc.Conc))
		for _, p := range perms {
			jobs = append(jobs, Job{Kind: "sched", Args: mustJSON(SchedArgs{Scen: "c09-" + sc.Name + "#" + permKey(p)})})
		}
		// for scenarios with an external credit: the serial observations of a world without that credit, used only to
		// classify a non-serializable observation as "the credit was overwritten"
		noCredit := map[string]bool{}
		if hasCredit(sc) {
			var nj []Job
			for _, p := range perms {
				nj = append(nj, Job{Kind: "sched", Args: mustJSON(SchedArgs{Scen: "c09-" + sc.Name + "#" + permKey(p) + "!nocredit"})})
			}
			for _, r := range pool.RunAll(nj) {
				var out SchedOut
				json.Unmarshal(r.Out, &out)
				if r.Err == "" && r.Crash == "" && out.Engine == "" {
					noCredit[out.Obs] = true
				}
			}
		}
		okRef := true
		for i, r := range pool.RunAll(jobs) {
			var out SchedOut
			json.Unmarshal(r.Out, &out)
			if r.Err != "" || r.Crash != "" || out.Engine != "" {
				rep.EngineError(fmt.Sprintf("[%s] serial reference %v: %s %s %s", sc.Name, perms[i], r.Err, oneLine(r.Crash, 200), out.Engine))
				okRef = false
				continue
			}
			if out.Blocked != nil || len(out.Finds) > 0 {
				// the serial execution itself misbehaves: report it under the serial order
				for _, f := range out.Finds {
					rep.Finding("serial/"+f.Rule, fmt.Sprintf("[%s] serial order %v: %s", sc.Name, perms[i], f.Detail), map[string]any{"job": json.RawMessage(jobs[i].Args), "kind": "sched"})
				}
				if out.Blocked != nil {
					rep.Finding("serial/blocked-forever", fmt.Sprintf("[%s] serial order %v: %v", sc.Name, perms[i], out.Blocked), map[string]any{"job": json.RawMessage(jobs[i].Args), "kind": "sched"})
				}
			}
			allowed[out.Obs] = permKey(perms[i])
		}
		if !okRef {
			continue
		}
		st := SchedStats{}
		ExploreSchedules(pool, rep, "c09-"+sc.Name, b, capExecs, &st)
		nonSerial := 0
		for obs, n := range st.Outcomes {
			if strings.HasPrefix(obs, "BLOCKED ") {
				continue
			}
			if _, ok := allowed[obs]; !ok {
				nonSerial += n
				var refs []string
				for a := range allowed {
					refs = append(refs, oneLine(a, 700))
				}
				rule := "not-serializable/" + sc.Name
				if noCredit[obs] {
					rule = "credit-overwritten-by-account-write-back/" + sc.Name
				}
				rep.Finding(rule, fmt.Sprintf("[%s] %d schedule(s) end in an observation that no serial order of the %d requests produces: %s ;; serial observations: %s", sc.Name, n, len(sc.Conc), oneLine(obs, 900), strings.Join(refs, " || ")),
					map[string]any{"scenario": "c09-" + sc.Name, "observation": obs, "kind": "outcome"})
			}
		}
		per = append(per, map[string]any{"scenario": sc.Name, "concurrent_requests": len(sc.Conc), "deviation_bound": b, "executions": st.Execs, "by_deviations": st.ByBound,
			"deviation_points_in_default_schedule": st.EligPoints, "scheduling_points": st.MaxPoints, "distinct_outcomes": len(st.Outcomes), "serial_reference_outcomes": len(allowed),
			"non_serializable_executions": nonSerial, "capped_children": st.Capped, "engine_errors": st.Diverged})
	}
	return per
}

func concCheck(t *testing.T, prop string) int {
	rep := NewReport(prop)
	pool := NewPool(0)
	pool.Timeout = 20 * time.Minute
	per := runConc(t, rep, pool, nil)
	execs, outcomes := 0, 0
	exhaustive := true
	var samples []any
	for _, p := range per {
		execs += p["executions"].(int)
		outcomes += p["distinct_outcomes"].(int)
		if p["capped_children"].(int) > 0 || p["engine_errors"].(int) > 0 {
			exhaustive = false
		}
		samples = append(samples, map[string]any{"scenario": p["scenario"], "deviation_bound": p["deviation_bound"], "executions": p["executions"]})
	}
	rep.Cov["states"] = outcomes
	rep.Cov["transitions"] = execs
	rep.Cov["schedules"] = execs
	rep.Cov["traces_validated_against_impl"] = execs
	rep.Cov["samples"] = samples[:min(len(samples), 5)]
	rep.Cov["exhaustive"] = exhaustive
	rep.Cov["scenarios"] = per
	rep.Cov["race_pass"] = racePass(rep)
	rep.Cov["method"] = "stateless preemption-bounded exploration under the gate scheduler: 2-3 requests are issued by concurrent driver threads after a sequential set-up; from the default (FIFO) schedule every placement of up to k PARK deviations (the running thread is suspended until nothing else can run) at operations on shared state (subscriber lock, subscriber pool, global counter lock, account database, CDR file table, dispatcher registration); each execution runs to completion, then every acknowledged session is updated and released; the observation (responses, balances, reservations, rating modes, records, references, counter) must equal that of some serial order of the same requests executed on the implementation itself"
	rep.Assumptions = append(rep.Assumptions, "data races on plain memory between two gates are not visible to the cooperative scheduler; a separate free-running -race pass covers them (see DESIGN.md)", "2-3 in-flight requests; GOMAXPROCS is replaced by the scheduler")
	return rep.Finish()
}
