//go:build verif && go1.23

package zzverif

import (
	"fmt"
	"strings"
	"time"

	"github.com/fiorix/go-diameter/diam"
	"github.com/fiorix/go-diameter/diam/datatype"
	"github.com/fiorix/go-diameter/diam/dict"

	charging_code "github.com/free5gc/chf/ccs_diameter/code"
	cd "github.com/free5gc/chf/ccs_diameter/datatype"
	"verif.local/vs"
)

// C07, schedule part. A history of credit-control requests is a sequence in the eyes of its sender: the next request
// is sent once the previous answer has arrived. The CHF sends every request over a connection of its own, so the
// server serves consecutive requests of one history in different tasks. The scenarios send a short history for one
// account over one connection per request, each request as soon as the previous answer is there (not: once the server
// has gone quiet), and explore every placement of up to k preemptions at the server's database and network
// operations. Every answer must be the one the sequential reference model gives, and the stored balance at the end
// must be the model's.

type c07SeqStep struct {
	Action int // RequestedAction
	Type   int // CcRequestType
	Amt    uint64
}

type c07SeqRes struct {
	Err     string
	Granted int64 // -1: no grant in the answer
	FUI     bool
	Session string
}

func c07SchedScenario(name string, balance int64, steps []c07SeqStep) func() schedScenario {
	return func() schedScenario {
		const imsi = "208930000000001"
		return schedScenario{
			Cfg: WorldCfg{NoRF: true, Accounts: []Account{{"imsi-" + imsi, 1, fmt.Sprint(balance), "1"}}, HorizonS: 60},
			Body: func(w *World, sctx *schedCtx) {
				sctx.Go("T1", func() {
					clis := make([]*diamClient, len(steps))
					for i := range steps {
						c, err := dialPeer("127.0.0.1:3869", "CCA")
						if err != nil {
							sctx.Results["setup"] = "dial: " + err.Error()
							return
						}
						clis[i] = c
					}
					vs.Quiesce()
					res := make([]c07SeqRes, len(steps))
					sctx.Free()
					th := vs.Go("R1", func() {
						for i, st := range steps {
							req := &cd.AccountDebitRequest{SessionId: datatype.UTF8String(fmt.Sprintf("acct-%d", i+1)), OriginHost: "verif-client", OriginRealm: "go-diameter",
								RequestedAction: cd.RequestedAction(st.Action), CcRequestType: cd.CcRequestType(st.Type), CcRequestNumber: datatype.Unsigned32(i),
								EventTimestamp: datatype.Time(time.Now()),
								SubscriptionId: &cd.SubscriptionId{SubscriptionIdType: cd.END_USER_IMSI, SubscriptionIdData: datatype.UTF8String(imsi)},
								MultipleServicesCreditControl: &cd.MultipleServicesCreditControl{RatingGroup: 1,
									RequestedServiceUnit: &cd.RequestedServiceUnit{CCTotalOctets: datatype.Unsigned64(st.Amt)},
									UsedServiceUnit:      &cd.UsedServiceUnit{CCTotalOctets: datatype.Unsigned64(st.Amt)}}}
							msg := diam.NewRequest(charging_code.ABMF_CreditControl, charging_code.Re_interface, dict.Default)
							if err := msg.Marshal(req); err != nil {
								res[i].Err = "marshal: " + err.Error()
								return
							}
							if _, err := msg.WriteTo(clis[i].conn); err != nil {
								res[i].Err = "write: " + err.Error()
								return
							}
							select {
							case m := <-clis[i].answers:
								var cca cd.AccountDebitResponse
								if err := m.Unmarshal(&cca); err != nil {
									res[i].Err = "undecodable answer: " + err.Error()
									return
								}
								res[i].Session, res[i].Granted = string(cca.SessionId), -1
								if ms := cca.MultipleServicesCreditControl; ms != nil {
									if ms.GrantedServiceUnit != nil {
										res[i].Granted = int64(ms.GrantedServiceUnit.CCTotalOctets)
									}
									res[i].FUI = ms.FinalUnitIndication != nil
								}
							case <-time.After(20 * time.Second):
								res[i].Err = "no answer within 20 s (virtual)"
								return
							}
						}
					})
					for !th.Finished() {
						vs.Quiesce()
						time.Sleep(500 * time.Millisecond)
					}
					sctx.Stop()
					vs.Quiesce()
					for _, c := range clis {
						c.conn.Close()
					}
					sctx.Results["res"] = res
				})
			},
			Observe: func(w *World, sctx *schedCtx) (string, []Finding) {
				var fs []Finding
				if s, _ := sctx.Results["setup"].(string); s != "" {
					return "setup failed: " + s, []Finding{{"engine-setup", s}}
				}
				res, _ := sctx.Results["res"].([]c07SeqRes)
				bal := balance
				var obs []string
				for i, r := range res {
					st := steps[i]
					what := fmt.Sprintf("[%s] request %d (action %d, type %d, amount %d; model balance before it %d), sent on a connection of its own as soon as the previous answer had arrived", name, i+1, st.Action, st.Type, st.Amt, bal)
					obs = append(obs, fmt.Sprintf("%d:g%d/f%v/%s", i+1, r.Granted, r.FUI, r.Err))
					if r.Err != "" {
						fs = append(fs, Finding{"sequence-over-connections/no-answer", what + ": " + r.Err})
						break
					}
					if r.Session != fmt.Sprintf("acct-%d", i+1) {
						fs = append(fs, Finding{"sequence-over-connections/answer-does-not-echo-request", what + fmt.Sprintf(": Session-Id %q", r.Session)})
					}
					switch {
					case st.Action == 0 && (st.Type == 1 || st.Type == 2):
						want := min(int64(st.Amt), bal)
						if r.Granted != want || r.FUI != (int64(st.Amt) > bal) {
							fs = append(fs, Finding{"sequence-over-connections/grant-not-min-of-request-and-balance", what + fmt.Sprintf(": granted %d final-unit indication %v, expected %d / %v", r.Granted, r.FUI, want, int64(st.Amt) > bal)})
						}
						bal -= want
					case st.Action == 0 && st.Type == 3:
						bal -= int64(st.Amt)
					case st.Action == 1:
						bal += int64(st.Amt)
					}
				}
				s := w.Snapshot(false)
				got, _ := balOf(&s, balKey("imsi-"+imsi, 1))
				if len(fs) == 0 && got != bal {
					fs = append(fs, Finding{"sequence-over-connections/stored-balance", fmt.Sprintf("[%s] after the %d requests the stored balance is %d, the sequential model gives %d (answers: %v)", name, len(steps), got, bal, obs)})
				}
				return strings.Join(obs, " ") + fmt.Sprintf(" bal=%d", got), fs
			},
			Elig: func(def, alt string) bool {
				if alt != "PARK" {
					return false
				}
				k := kindOf(def)
				return strings.HasPrefix(k, "db.") || k == "net.Read" || strings.HasPrefix(k, "net.Write") || strings.HasPrefix(k, "d.")
			},
		}
	}
}

var c07SchedScens = map[string]struct {
	bal   int64
	steps []c07SeqStep
}{
	"c07-reserve-reserve":        {100, []c07SeqStep{{0, 2, 60}, {0, 2, 60}}},
	"c07-reserve-refund-reserve": {100, []c07SeqStep{{0, 2, 80}, {1, 2, 30}, {0, 2, 60}}},
	"c07-debit-reserve":          {100, []c07SeqStep{{0, 3, 70}, {0, 2, 60}}},
}

func init() {
	for name, sc := range c07SchedScens {
		schedScenarios[name] = c07SchedScenario(name, sc.bal, sc.steps)
	}
}

func c07Schedules(rep *Report, pool *Pool) (per []map[string]any, execs int, exhaustive bool) {
	exhaustive = true
	for _, name := range sortedKeys(c07SchedScens) {
		bound, capExecs := 2, 4000
		if rep.Tier == "thorough" {
			bound, capExecs = 3, 60000
		}
		st := SchedStats{}
		ExploreSchedules(pool, rep, name, bound, capExecs, &st)
		execs += st.Execs
		if st.Capped > 0 || st.Diverged > 0 {
			exhaustive = false
		}
		var outs []string
		for o, n := range st.Outcomes {
			outs = append(outs, fmt.Sprintf("%s x%d", o, n))
		}
		per = append(per, map[string]any{"scenario": name, "requests": len(c07SchedScens[name].steps), "deviation_bound": bound, "executions": st.Execs, "by_deviations": st.ByBound,
			"deviation_points_in_default_schedule": st.EligPoints, "distinct_outcomes": len(st.Outcomes), "capped_children": st.Capped, "engine_errors": st.Diverged, "outcomes": strings.Join(outs[:min(len(outs), 8)], "; ")})
	}
	return
}
