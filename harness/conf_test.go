//go:build verif && go1.23

package zzverif

import (
	"encoding/json"
	"fmt"
	"net"
	"os"
	"sort"
	"strings"
	"sync/atomic"
	"testing"
	"time"

	"verif.local/vs"
)

// Conformance replay: histories explored by the world explorer are executed once more on the real stack - the same
// CHF code, but go-diameter's own network layer (real TCP on loopback, real TLS), real goroutine scheduling, real
// sync primitives and the real clock; only MongoDB and the CDR directory stay in memory. The observations of both
// executions must be identical. This is what binds the environment doubles (modelled network, controlled scheduler,
// virtual clock) to the implementation they stand for.

type confArgs struct {
	Cfg   WorldCfg `json:"cfg"`
	Supis []string `json:"supis"`
	Ops   []Op     `json:"ops"`
}

type confOut struct {
	Obs    string `json:"obs"`
	Engine string `json:"engine,omitempty"`
	TCP    bool   `json:"tcp,omitempty"` // the rating server of this world accepted a TCP connection on its loopback port
}

// confObs: what both executions must agree on (no time stamps, no durations).
func confObs(h *HistRun, s Snap) string {
	var parts []string
	for i, st := range h.Steps {
		var us []string
		for _, u := range st.Units {
			us = append(us, fmt.Sprintf("rg%d:g%d:%s", u.RG, u.Granted, u.FUI))
		}
		parts = append(parts, fmt.Sprintf("%d:%s->%d ref=%s seq=%d [%s] notes=%d", i, st.Op.K, st.Resp.Code, refOf(st.Resp.Location), st.SeqNo, strings.Join(us, ","), len(st.Notes)))
	}
	var ues []string
	for _, k := range sortedKeys(s.UEs) {
		u := s.UEs[k]
		ss := append([]string(nil), u.Sessions...)
		sort.Strings(ss)
		ues = append(ues, fmt.Sprintf("%s res=%v mode=%v cost=%v records=%d sessions=%v uri=%s", k, u.Reserved, u.RatingType, u.UnitCost, u.Records, ss, u.NotifyUri))
	}
	return strings.Join(parts, " | ") + " || bal=" + fmt.Sprint(s.Bal) + " || " + strings.Join(ues, "; ") + fmt.Sprintf(" || seq=%d files=%v", s.LocalSeq, s.Files)
}

func waitListening(ports ...int) {
	for _, p := range ports {
		for i := 0; i < 3000; i++ {
			c, err := net.DialTimeout("tcp", fmt.Sprintf("127.0.0.1:%d", p), 100*time.Millisecond)
			if err == nil {
				c.Close()
				break
			}
			time.Sleep(5 * time.Millisecond)
		}
	}
}

var confWorlds atomic.Int32

func init() {
	// simulated execution (any binary)
	jobHandlers["confsim"] = func(t *testing.T, raw json.RawMessage) (any, error) {
		var a confArgs
		if err := json.Unmarshal(raw, &a); err != nil {
			return nil, err
		}
		var out confOut
		var h *HistRun
		o := runWorld(t, a.Cfg, nil, func(w *World) {
			vs.Go("T1", func() { h = w.ExecOps(a.Supis, a.Ops, 1<<30, false) })
		}, func(w *World) any {
			if h != nil {
				out.Obs = confObs(h, w.Snapshot(false))
			}
			return nil
		})
		if o.Panic != "" || o.Res.Err != "" {
			out.Engine = o.Panic + o.Res.Err
		}
		if o.Res.Deadlock {
			out.Obs = "BLOCKED " + fmt.Sprint(o.Res.Blocked)
		}
		return out, nil
	}
	// real-stack execution (meaningful in the binary built against the unpatched go-diameter only)
	jobHandlers["confreal"] = func(t *testing.T, raw json.RawMessage) (any, error) {
		var a confArgs
		if err := json.Unmarshal(raw, &a); err != nil {
			return nil, err
		}
		n := int(confWorlds.Add(1))
		base := 21000 + (os.Getpid()%100)*100 // below the ephemeral port range
		a.Cfg.RfPort, a.Cfg.AbmfPort = base+2*n, base+2*n+1
		var out confOut
		done := make(chan struct{})
		go func() {
			defer close(done)
			defer func() {
				if r := recover(); r != nil {
					out.Engine = fmt.Sprint("panic: ", r)
				}
			}()
			runFree(a.Cfg, func(w *World) {
				if c, err := net.DialTimeout("tcp", fmt.Sprintf("127.0.0.1:%d", a.Cfg.RfPort), time.Second); err == nil {
					c.Close()
					out.TCP = true
				} else {
					out.Engine = fmt.Sprintf("no TCP listener on port %d of world %d in process %d: %v", a.Cfg.RfPort, n, os.Getpid(), err)
				}
				h := w.ExecOps(a.Supis, a.Ops, 1<<30, false)
				out.Obs = confObs(h, w.Snapshot(false))
			})
		}()
		select {
		case <-done:
		case <-time.After(3 * time.Minute):
			out.Engine = "real-stack execution did not finish within 3 minutes"
		}
		return out, nil
	}
}

// conformanceReplay executes the given histories in both worlds and reports every difference.
func conformanceReplay(rep *Report, hist []confArgs) map[string]any {
	res := map[string]any{"ran": false}
	exe := os.Getenv("VREAL_BIN")
	if _, err := os.Stat(exe); exe == "" || err != nil {
		res["why_not"] = "no real-stack binary (VREAL_BIN)"
		return res
	}
	var jobs []Job
	for _, a := range hist {
		jobs = append(jobs, Job{Kind: "confsim", Args: mustJSON(a)})
	}
	sim := NewPool(0)
	simRes := sim.RunAll(jobs)
	var rjobs []Job
	for _, a := range hist {
		rjobs = append(rjobs, Job{Kind: "confreal", Args: mustJSON(a)})
	}
	// one real-stack worker at a time keeps the loopback ports apart; it is recycled regularly because the Diameter
	// servers of a world never stop listening
	real := NewPool(4)
	real.Exe = exe
	real.Procs = 4
	real.Env = []string{"VWORKER_RECYCLE=25"}
	real.Timeout = 5 * time.Minute
	realRes := real.RunAll(rjobs)
	agree, differ, failed := 0, 0, 0
	var samples []any
	for i := range hist {
		var so, ro confOut
		json.Unmarshal(simRes[i].Out, &so)
		json.Unmarshal(realRes[i].Out, &ro)
		if simRes[i].Err != "" || simRes[i].Crash != "" || so.Engine != "" || realRes[i].Err != "" || realRes[i].Crash != "" || ro.Engine != "" {
			failed++
			rep.EngineError(fmt.Sprintf("conformance replay of %v could not be executed: sim[%s %s %s] real[%s %s %s]", hist[i].Ops, simRes[i].Err, oneLine(simRes[i].Crash, 200), so.Engine, realRes[i].Err, oneLine(realRes[i].Crash, 200), ro.Engine))
			continue
		}
		if !ro.TCP {
			failed++
			rep.EngineError("conformance: the real-stack world has no TCP listener (binary not built against the real network layer?)")
			continue
		}
		if so.Obs == ro.Obs {
			agree++
			if len(samples) < 2 {
				samples = append(samples, map[string]any{"history": hist[i].Ops, "observation_in_both_worlds": so.Obs})
			}
			continue
		}
		differ++
		// a difference between the worlds is a defect of the doubles, i.e. of the machinery: never a verdict on chf
		rep.EngineError(fmt.Sprintf("conformance: modelled and real stack disagree on %v: modelled %s ;; real %s", hist[i].Ops, oneLine(so.Obs, 600), oneLine(ro.Obs, 600)))
	}
	res["ran"], res["histories"], res["agree"], res["differ"], res["not_executed"], res["samples"] = true, len(hist), agree, differ, failed, samples
	return res
}
