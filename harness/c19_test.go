//go:build verif && go1.23

package zzverif

import (
	"fmt"
	"strings"
	"testing"
	"time"

	"github.com/fiorix/go-diameter/diam"
	"verif.local/vs"
)

// C19: late or lost Diameter answers neither cross-talk nor block later requests.
// One subscriber, consecutive updates with pairwise different requested amounts, then a probe;
// deviations = delaying (6 virtual seconds, beyond the 5 s client time-out) the delivery of an answer
// at the client connection / the client's message dispatcher, or letting a timer land first.

type c19Res struct {
	Req     int32
	Code    int
	Granted int32 // -1: no unit information for the rating group
	VT      int64
	Res     int64
}

func c19Scenario(nUpdates int) func() schedScenario {
	return func() schedScenario {
		reqs := []int32{100, 70, 40, 55}[:nUpdates]
		const probeReq = 25
		return schedScenario{
			Cfg: WorldCfg{Accounts: []Account{{supiA, 1, "100000", "1"}}, DelayMs: 6000, HorizonS: 300},
			Body: func(w *World, sc *schedCtx) {
				sc.Go("T1", func() {
					h := w.ExecOps([]string{supiA}, []Op{mkCreate(0, "smf1")}, 1, false)
					if len(h.Sess) == 0 {
						return
					}
					ref := h.Sess[0].Ref
					sc.Free()
					var rs []c19Res
					last := int32(0)
					var usedSum int64
					do := func(req int32, seq int32) c19Res {
						usedSum += int64(last)
						op := Op{K: "update", S: 0, MUs: []MU{{RG: 1, Req: req, Conts: []Cont{{Vol: last, Seq: seq}}}}, Seq: seq}
						t0 := time.Now()
						r := w.Do("POST", ccBase+"/chargingdata/"+ref+"/update", op.Request(supiA), nil)
						res := c19Res{Req: req, Code: r.Code, Granted: -1, VT: time.Since(t0).Milliseconds()}
						units, _, _ := parseUnits(r.Body)
						for _, u := range units {
							if u.RG == 1 {
								res.Granted = u.Granted
							}
						}
						if res.Granted > 0 {
							last = res.Granted
						} else {
							last = 0
						}
						s := w.Snapshot(false)
						res.Res = s.UEs[supiA].Reserved[1]
						return res
					}
					for i, rq := range reqs {
						rs = append(rs, do(rq, int32(i+1)))
					}
					sc.Results["updates"] = rs
					// the peers are prompt again: let everything in flight settle, then probe
					time.Sleep(30 * time.Second)
					vs.Quiesce()
					sc.Stop()
					sc.Results["probe"] = do(probeReq, 99)
					// money: what the CHF holds as reservation plus the price of the usage reported so far can never exceed
					// what has left the account (an answer that was lost may leave money debited but unrecorded, never the reverse)
					fin := w.Snapshot(false)
					var bal int64
					fmt.Sscan(fin.Bal[balKey(supiA, 1)], &bal)
					sc.Results["money"] = [3]int64{fin.UEs[supiA].Reserved[1], usedSum, 100000 - bal}
				})
			},
			Observe: func(w *World, sc *schedCtx) (string, []Finding) {
				var fs []Finding
				var parts []string
				rs, _ := sc.Results["updates"].([]c19Res)
				for i, r := range rs {
					parts = append(parts, fmt.Sprintf("u%d:%d/g%d/r%d/%ds", i+1, r.Code, r.Granted, r.Res, r.VT/1000))
					switch {
					case r.Code != 200:
						fs = append(fs, Finding{"update-rejected-under-delay", fmt.Sprintf("update %d (requesting %d) answered %d", i+1, r.Req, r.Code)})
					case r.Granted >= 0 && r.Granted != r.Req:
						fs = append(fs, Finding{"answer-cross-talk", fmt.Sprintf("update %d requested %d units (the account covers it) but was granted %d: it acted on an answer that was not the answer to its own request (all updates: %v)", i+1, r.Req, r.Granted, rs)})
					case r.Granted == r.Req && r.Res != int64(r.Req) && allNormal(rs[:i]):
						fs = append(fs, Finding{"reservation-from-foreign-answer", fmt.Sprintf("update %d requested and was granted %d units at unit cost 1 but holds a reservation of %d", i+1, r.Req, r.Res)})
					}
				}
				if p, ok := sc.Results["probe"].(c19Res); ok {
					parts = append(parts, fmt.Sprintf("probe:%d/g%d/%ds", p.Code, p.Granted, p.VT/1000))
					if p.Code != 200 || p.Granted != p.Req || p.VT > 2000 {
						fs = append(fs, Finding{"probe-after-faults-fails", fmt.Sprintf("after the delayed answers, with prompt peers again, a fresh update requesting %d units answered %d granted %d after %d ms (updates before: %v)", p.Req, p.Code, p.Granted, p.VT, rs)})
					}
				}
				if m, ok := sc.Results["money"].([3]int64); ok && m[0]+m[1] > m[2] {
					fs = append(fs, Finding{"reservation-without-debit", fmt.Sprintf("at the end the CHF holds a reservation of %d and usage worth %d was reported, but only %d ever left the account (updates: %v)", m[0], m[1], m[2], rs)})
				}
				// no exchange may be given up before its 5 s are over (a lost answer must not eat into the time of later exchanges)
				for _, ab := range diam.MemAbandoned(4900 * time.Millisecond) {
					fs = append(fs, Finding{"exchange-abandoned-before-timeout", "connection " + ab + fmt.Sprintf(" (updates: %v)", rs)})
				}
				return strings.Join(parts, " "), fs
			},
			Elig: func(def, alt string) bool {
				if alt == "DUP" {
					return true // a peer that retransmits an answer (offered at the servers' answer writes only)
				}
				if alt != "DELAY" && alt != "TIME" {
					return false
				}
				k := kindOf(def)
				switch k {
				case "net.Read":
					return strings.HasSuffix(objOf(def), ".cli")
				case "d.RLock", "d.WLock":
					return true
				}
				return false
			},
		}
	}
}

// c19TwoGroupsScenario: every update reports on two rating groups with different tariffs (unit cost 2 and 5), so each
// update runs several rating and account exchanges in a row. Whatever answer is late or lost, the unit cost the CHF
// works with for a rating group is that group's own tariff (or the documented fallback of 1 when its tariff answer
// never arrived) - never the tariff answered for the other group.
func c19TwoGroupsScenario() schedScenario {
	return schedScenario{
		Cfg: WorldCfg{Accounts: []Account{{supiA, 1, "100000", "2"}, {supiA, 2, "100000", "5"}}, DelayMs: 6000, HorizonS: 400},
		Body: func(w *World, sc *schedCtx) {
			sc.Go("T1", func() {
				h := w.ExecOps([]string{supiA}, []Op{mkCreate(0, "smf1")}, 1, false)
				if len(h.Sess) == 0 {
					return
				}
				ref := h.Sess[0].Ref
				sc.Free()
				var costs []map[int32]uint32
				var grants []map[int32]int32
				var codes []int
				for i := 0; i < 2; i++ {
					op := Op{K: "update", S: 0, Seq: int32(i + 1), MUs: []MU{
						{RG: 1, Req: 40, Conts: []Cont{{Vol: 0, Seq: int32(10*i + 1)}}},
						{RG: 2, Req: 30, Conts: []Cont{{Vol: 0, Seq: int32(10*i + 2)}}}}}
					r := w.Do("POST", ccBase+"/chargingdata/"+ref+"/update", op.Request(supiA), nil)
					codes = append(codes, r.Code)
					g := map[int32]int32{1: -1, 2: -1}
					units, _, _ := parseUnits(r.Body)
					for _, u := range units {
						g[u.RG] = u.Granted
					}
					grants = append(grants, g)
					s := w.Snapshot(false)
					c := map[int32]uint32{}
					for k, v := range s.UEs[supiA].UnitCost {
						c[k] = v
					}
					costs = append(costs, c)
					if i == 0 {
						var b1, b2 int64
						fmt.Sscan(s.Bal[balKey(supiA, 1)], &b1)
						fmt.Sscan(s.Bal[balKey(supiA, 2)], &b2)
						sc.Results["debited"] = [2]int64{100000 - b1, 100000 - b2}
					}
				}
				time.Sleep(30 * time.Second)
				vs.Quiesce()
				sc.Stop()
				sc.Results["costs"] = costs
				sc.Results["grants"] = grants
				sc.Results["codes"] = codes
			})
		},
		Observe: func(w *World, sc *schedCtx) (string, []Finding) {
			var fs []Finding
			costs, _ := sc.Results["costs"].([]map[int32]uint32)
			codes, _ := sc.Results["codes"].([]int)
			own := map[int32]uint32{1: 2, 2: 5}
			for i, c := range costs {
				for rg, v := range c {
					if v != own[rg] && v != 1 {
						fs = append(fs, Finding{"tariff-of-another-rating-group", fmt.Sprintf("after update %d (answered %v) the CHF works with unit cost %d for rating group %d (its tariff is %d; 1 when no tariff answer arrived): it acted on the tariff answered for another rating group", i+1, codes, v, rg, own[rg])})
					}
				}
			}
			// what the first update had debited when it was answered: the requested volume at the group's own tariff, at the
			// fallback of 1, or nothing (exchange not completed) - never the volume at the other group's tariff
			deb, _ := sc.Results["debited"].([2]int64)
			for i, rg := range []int32{1, 2} {
				req := []int64{40, 30}[i]
				if d := deb[i]; d != 0 && d != req*int64(own[rg]) && d != req {
					fs = append(fs, Finding{"tariff-of-another-rating-group", fmt.Sprintf("the first update (answered %v) asked for %d units of rating group %d (tariff %d) and %d was debited from the account: priced with a tariff that was not answered for this rating group", codes, req, rg, own[rg], d)})
				}
			}
			// the accounts cover every request: a rating group is granted what it asked for, or nothing when one of its
			// exchanges was lost, or what the request priced at the fallback unit cost buys - never another amount (that would be
			// the grant of another exchange)
			grants, _ := sc.Results["grants"].([]map[int32]int32)
			for i, g := range grants {
				for rg, req := range map[int32]int32{1: 40, 2: 30} {
					// (with the fallback unit cost 1 the money reserved buys req / tariff units)
					if v := g[rg]; v != req && v != req/int32(own[rg]) && v != -1 && v != 0 {
						fs = append(fs, Finding{"grant-of-another-exchange", fmt.Sprintf("update %d (answered %v) asked for %d units of rating group %d and was granted %d (all grants: %v)", i+1, codes, req, rg, v, grants)})
					}
				}
			}
			return fmt.Sprintf("codes=%v costs=%v debited=%v grants=%v", codes, costs, deb, grants), fs
		},
		Elig: func(def, alt string) bool {
			if alt != "DELAY" && alt != "TIME" {
				return false
			}
			switch kindOf(def) {
			case "net.Read":
				return strings.HasSuffix(objOf(def), ".cli")
			case "d.RLock", "d.WLock":
				return true
			}
			return false
		},
	}
}

// allNormal: every earlier update was granted exactly what it asked for (so the reservation is predictable)
func allNormal(rs []c19Res) bool {
	for _, r := range rs {
		if r.Granted != r.Req {
			return false
		}
	}
	return true
}

func init() {
	schedScenarios["c19-seq2"] = c19Scenario(2)
	schedScenarios["c19-seq3"] = c19Scenario(3)
	schedScenarios["c19-two-groups"] = c19TwoGroupsScenario
	checks["C19"] = func(t *testing.T) int {
		rep := NewReport("C19")
		pool := NewPool(0)
		pool.Timeout = 20 * 60 * 1e9
		type run struct {
			scen  string
			bound int
			cap   int
		}
		runs := []run{{"c19-seq3", 1, 0}, {"c19-seq2", 2, 12000}, {"c19-two-groups", 1, 0}}
		if rep.Tier == "thorough" {
			runs = []run{{"c19-seq3", 2, 0}, {"c19-seq2", 3, 200000}, {"c19-two-groups", 2, 60000}}
		}
		total := 0
		var per []map[string]any
		var samples []any
		exhaustive := true
		outcomes := 0
		for _, r := range runs {
			st := SchedStats{}
			ExploreSchedules(pool, rep, r.scen, r.bound, r.cap, &st)
			total += st.Execs
			outcomes += len(st.Outcomes)
			samples = append(samples, st.Samples...)
			if st.Capped > 0 || st.Diverged > 0 {
				exhaustive = false
			}
			top := map[string]int{}
			for k, v := range st.Outcomes {
				if len(top) < 12 {
					top[oneLine(k, 160)] = v
				}
			}
			per = append(per, map[string]any{"scenario": r.scen, "deviation_bound": r.bound, "executions": st.Execs, "by_deviations": st.ByBound, "deviation_points_in_default_schedule": st.EligPoints,
				"scheduling_points": st.MaxPoints, "distinct_outcomes": len(st.Outcomes), "capped_children": st.Capped, "engine_errors": st.Diverged, "outcomes": top})
		}
		rep.Cov["states"] = outcomes
		rep.Cov["transitions"] = total
		rep.Cov["schedules"] = total
		rep.Cov["traces_validated_against_impl"] = total
		rep.Cov["samples"] = samples
		rep.Cov["exhaustive"] = exhaustive
		rep.Cov["runs"] = per
		rep.Cov["method"] = "stateless deviation-bounded exploration on the real CHF + go-diameter + ABMF/rating servers under the gate scheduler in virtual time: from the default (FIFO) schedule, every placement of up to k deviations, where a deviation makes a peer retransmit an application answer twice (DUP), or delays by 6 s (beyond the 5 s client time-out) the thread about to read an answer from a client connection or to enter the client's message dispatcher, or lets the clock advance first; every execution runs to completion (or the virtual horizon) and is checked for cross-talk (grant/reservation not matching the update's own request), blocked requests and a failing fault-free probe"
		rep.Assumptions = append(rep.Assumptions, "a 'late' answer is one whose delivery thread is not scheduled before the requester's timer; a 'lost' answer is one never delivered before the end of the execution", "states = distinct observed outcomes; transitions = executions (schedules)")
		_ = vs.S
		return rep.Finish()
	}
}
