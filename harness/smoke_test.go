//go:build verif && go1.23

package zzverif

import (
	"encoding/json"
	"fmt"
	"testing"
	"time"

	"verif.local/vs"
)

func init() {
	jobHandlers["smoke"] = func(t *testing.T, args json.RawMessage) (any, error) {
		cfg := WorldCfg{Accounts: []Account{{"imsi-208930000000001", 1, "1000", "2"}}}
		var log []string
		t0 := time.Now()
		o := runWorld(t, cfg, nil, func(w *World) {
			vs.Go("T1", func() {
				body := map[string]any{"subscriberIdentifier": "imsi-208930000000001", "nfConsumerIdentification": map[string]any{"nFName": "smf1", "nodeFunctionality": "SMF"},
					"notifyUri": "http://smf-a.example/notify", "invocationSequenceNumber": 1}
				r := w.Do("POST", ccBase+"/chargingdata", body, nil)
				log = append(log, fmt.Sprintf("create %+v", r))
				vs.Quiesce()
				ref := r.Location[len(r.Location)-len("imsi-208930000000001smf1-0"):]
				body["multipleUnitUsage"] = []any{map[string]any{"ratingGroup": 1, "requestedUnit": map[string]any{"totalVolume": 100},
					"usedUnitContainer": []any{map[string]any{"quotaManagementIndicator": "ONLINE_CHARGING", "localSequenceNumber": 1}}}}
				r = w.Do("POST", ccBase+"/chargingdata/"+ref+"/update", body, nil)
				log = append(log, fmt.Sprintf("update %+v", r))
				vs.Quiesce()
				log = append(log, fmt.Sprintf("snap %+v", w.Snapshot(true)))
				r = w.Do("PUT", ccBase+"/recharging/imsi-208930000000001_1", nil, nil)
				log = append(log, fmt.Sprintf("recharge %+v notes=%v", r, notesSince(0)))
			})
		}, func(w *World) any { return w.Snapshot(true) })
		return map[string]any{"log": log, "res": o.Res, "points": len(o.Points), "panic": o.Panic, "thp": o.ThPanics, "obs": o.Obs, "ms": time.Since(t0).Milliseconds()}, nil
	}
	checks["SMOKE"] = func(t *testing.T) int {
		p := NewPool(2)
		rs := p.RunAll([]Job{{Kind: "smoke"}, {Kind: "smoke"}, {Kind: "smoke"}})
		for _, r := range rs {
			fmt.Printf("err=%q crash=%q out=%s\n", r.Err, r.Crash, r.Out)
		}
		return 0
	}
}
