//go:build verif && go1.23

package zzverif

// Deviation-bounded exhaustive enumeration over a decision sequence (engine E2).
//
// A case is built by a function that asks a Chooser for a decision at every decision point
// (which alternative of a leaf alphabet, is this OPTIONAL member present, how long is this
// list, ...).  Alternative 0 is the base choice.  Enumerate visits the base case, every case
// with exactly one non-base choice, every case with two, ... up to the bound k - the same
// recursion as the schedule explorer: a case is identified by the prefix of choices up to
// its last deviation; children deviate only at decision points discovered after it.

type Chooser struct {
	prefix []int
	pos    int
	counts []int
	labels []string
	frozen int
}

// Pick returns the alternative (0..n-1) chosen at this decision point.
func (c *Chooser) Pick(n int, label string) int {
	if c == nil || c.frozen > 0 || n <= 1 {
		return 0
	}
	i := c.pos
	c.pos++
	alt := 0
	if i < len(c.prefix) {
		alt = c.prefix[i]
		if alt >= n {
			panic("enumerate: replay divergence at decision " + label)
		}
	}
	c.counts = append(c.counts, n)
	c.labels = append(c.labels, label)
	return alt
}

// Freeze/Unfreeze: decision points inside are not enumerated (base choices only).
func (c *Chooser) Freeze() {
	if c != nil {
		c.frozen++
	}
}
func (c *Chooser) Unfreeze() {
	if c != nil {
		c.frozen--
	}
}

// Deviations describes the non-base choices of the case, for replay files and samples.
func (c *Chooser) Deviations() (out []string) {
	for i, a := range c.prefix {
		if a != 0 && i < len(c.labels) {
			out = append(out, c.labels[i]+"="+itoa(a))
		}
	}
	return
}

func itoa(i int) string {
	if i == 0 {
		return "0"
	}
	neg := i < 0
	if neg {
		i = -i
	}
	var b [20]byte
	p := len(b)
	for i > 0 {
		p--
		b[p] = byte('0' + i%10)
		i /= 10
	}
	if neg {
		p--
		b[p] = '-'
	}
	return string(b[p:])
}

// Enumerate calls visit for every case within k deviations. build must be deterministic.
// visit returns false to stop the whole enumeration. Returns the number of cases.
func Enumerate(k int, build func(c *Chooser), visit func(c *Chooser) bool) (n int) {
	stop := false
	var rec func(prefix []int, used int)
	rec = func(prefix []int, used int) {
		if stop {
			return
		}
		c := &Chooser{prefix: prefix}
		build(c)
		n++
		if !visit(c) {
			stop = true
			return
		}
		if used >= k {
			return
		}
		counts := c.counts
		for i := len(prefix); i < len(counts); i++ {
			for alt := 1; alt < counts[i]; alt++ {
				np := make([]int, i+1)
				copy(np, prefix)
				np[i] = alt
				rec(np, used+1)
				if stop {
					return
				}
			}
		}
	}
	rec(nil, 0)
	return
}
