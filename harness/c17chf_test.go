//go:build verif && go1.23

package zzverif

import (
	"encoding/json"
	"fmt"
	"reflect"
	"strings"
	"testing"

	"github.com/fiorix/go-diameter/diam"
	"github.com/fiorix/go-diameter/diam/datatype"
	"github.com/fiorix/go-diameter/diam/sm"

	cd "github.com/free5gc/chf/ccs_diameter/datatype"
	chf_abmf "github.com/free5gc/chf/internal/abmf"
	chf_context "github.com/free5gc/chf/internal/context"
	chf_rating "github.com/free5gc/chf/internal/rating"
	"verif.local/vs"
)

// C17 through the CHF's own client functions: a scripted peer (a go-diameter state machine on the modelled network)
// answers with every enumerated answer value, and decodes every enumerated request value; what
// rating.SendServiceUsageRequest / abmf.SendAccountDebitRequest return (resp. what the peer decodes) must be the value
// that was sent - also for whatever the client functions do around the marshalling.

type c17ChfArgs struct {
	Side  string `json:"side"` // rating | abmf
	Dir   string `json:"dir"`  // answer | request
	Part  int    `json:"part"`
	Parts int    `json:"parts"`
	K     int    `json:"k"`
}

func c17ChfJob(t *testing.T, raw json.RawMessage) (any, error) {
	var a c17ChfArgs
	json.Unmarshal(raw, &a)
	out := c17Out{Rules: map[string]int{}}
	find := func(rule, d string) {
		out.Rules[rule]++
		if out.Rules[rule] <= 3 {
			out.Finds = append(out.Finds, Finding{rule, d})
		}
	}
	reqT, ansT := reflect.TypeOf(cd.ServiceUsageRequest{}), reflect.TypeOf(cd.ServiceUsageResponse{})
	cmdName, addr := "SUR", "127.0.0.1:3868"
	if a.Side == "abmf" {
		reqT, ansT = reflect.TypeOf(cd.AccountDebitRequest{}), reflect.TypeOf(cd.AccountDebitResponse{})
		cmdName, addr = "CCR", "127.0.0.1:3869"
	}
	o := runWorld(t, WorldCfg{NoRF: true, NoABMF: true, HorizonS: 24 * 3600, StepCap: 50_000_000}, nil, func(w *World) {
		vs.Go("T1", func() {
			// (the real servers, which load the dictionaries in the service's order, are not started in this world)
			if err := loadDicts(); err != nil {
				find("engine-setup", err.Error())
				return
			}
			// the scripted peer
			var answer reflect.Value // what the peer answers with
			var gotReq reflect.Value // what the peer decoded from the last request
			var reqErr string
			mux := sm.New(&sm.Settings{OriginHost: "server", OriginRealm: "go-diameter", VendorID: 13, ProductName: "go-diameter", FirmwareRevision: 1})
			mux.HandleFunc(cmdName, func(c diam.Conn, m *diam.Message) {
				gr := reflect.New(reqT)
				if err := m.Unmarshal(gr.Interface()); err != nil {
					reqErr = err.Error()
				} else {
					gotReq, reqErr = gr.Elem(), ""
				}
				ans := m.Answer(diam.Success)
				p := reflect.New(ansT)
				p.Elem().Set(answer)
				if err := ans.Marshal(p.Interface()); err != nil {
					reqErr = "peer cannot marshal the scripted answer: " + err.Error()
					return
				}
				ans.WriteTo(c)
			})
			go diam.ListenAndServeTLS(addr, certPem, certKey, mux, nil)
			vs.Quiesce()
			ue, err := chf_context.GetSelf().NewCHFUe(supiA)
			if err != nil {
				find("engine-setup", err.Error())
				return
			}
			baseAns := buildDiam(&Chooser{}, ansT, "answer", 0)
			baseReq := buildDiam(&Chooser{}, reqT, "request", 0)
			typ := ansT
			if a.Dir == "request" {
				typ = reqT
			}
			var cur reflect.Value
			idx := 0
			Enumerate(a.K, func(c *Chooser) { cur = buildDiam(c, typ, typ.Name(), 0) }, func(c *Chooser) bool {
				idx++
				if idx%a.Parts != a.Part {
					return true
				}
				out.Cases++
				desc := fmt.Sprintf("%s with %v through the CHF's client function", typ.Name(), c.Deviations())
				answer = baseAns
				req := reflect.New(reqT)
				req.Elem().Set(baseReq)
				if a.Dir == "answer" {
					answer = cur
				} else {
					req.Elem().Set(cur)
				}
				var got reflect.Value
				var cerr error
				if a.Side == "rating" {
					r, e := chf_rating.SendServiceUsageRequest(ue, req.Interface().(*cd.ServiceUsageRequest))
					cerr = e
					if r != nil {
						got = reflect.ValueOf(r).Elem()
					}
				} else {
					r, e := chf_abmf.SendAccountDebitRequest(ue, req.Interface().(*cd.AccountDebitRequest))
					cerr = e
					if r != nil {
						got = reflect.ValueOf(r).Elem()
					}
				}
				vs.Quiesce()
				if cerr != nil || !got.IsValid() {
					find("client-exchange-fails/"+typ.Name(), desc+fmt.Sprintf(": %v %s", cerr, reqErr))
					return true
				}
				if a.Dir == "answer" {
					want := reflect.New(ansT).Elem()
					want.Set(cur)
					if f := want.FieldByName("ResultCode"); f.IsValid() {
						f.SetUint(got.FieldByName("ResultCode").Uint())
					}
					if d := diffDiam(want, got, typ.Name()); d != "" {
						find("field-not-intact-at-the-chf/"+d[:strings.Index(d, ":")], desc+": "+d)
					}
					return true
				}
				if reqErr != "" || !gotReq.IsValid() {
					find("peer-cannot-decode-request/"+typ.Name(), desc+": "+reqErr)
					return true
				}
				// the client functions address the request to the peer themselves
				want := reflect.New(reqT).Elem()
				want.Set(cur)
				for _, fn := range []string{"DestinationRealm", "DestinationHost"} {
					if f := want.FieldByName(fn); f.IsValid() {
						f.Set(gotReq.FieldByName(fn))
					}
				}
				if d := diffDiam(want, gotReq, typ.Name()); d != "" {
					find("field-not-intact-at-the-peer/"+d[:strings.Index(d, ":")], desc+": "+d)
				}
				return true
			})
			_ = datatype.Unsigned32(0)
		})
	}, nil)
	if o.Panic != "" || o.Res.Err != "" {
		return nil, fmt.Errorf("engine: %s %s", o.Panic, o.Res.Err)
	}
	if o.Res.Deadlock {
		find("blocked-forever", fmt.Sprint(o.Res.Blocked))
	}
	for _, p := range o.ThPanics {
		find("driver-panic", oneLine(p, 300))
	}
	return out, nil
}

func init() { jobHandlers["c17chf"] = c17ChfJob }
