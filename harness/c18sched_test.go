//go:build verif && go1.23

package zzverif

import (
	"fmt"
	"strings"
	"time"

	"github.com/fiorix/go-diameter/diam"
	"github.com/fiorix/go-diameter/diam/dict"
	"github.com/fiorix/go-diameter/diam/sm"
	"verif.local/vs"
)

// C18, schedule part: slow peers. After a create, two updates are processed while one (bound 1) or two of the
// messages of their Diameter exchanges (capabilities handshake, request, answer - in either direction) are delayed
// by the scenario's quantum: 3 s (slower than a dial bound, faster than the library's handshake limit and the 5 s
// answer time-out) or 6 s (beyond the time-outs). Whatever is delayed, once the requests have completed and the
// peers have been quiet for a minute, no connection and no task may be left over compared with before.

func c18SlowScenario(delayMs int) func() schedScenario {
	return func() schedScenario {
		return schedScenario{
			Cfg: WorldCfg{Accounts: []Account{{supiA, 1, "100000", "1"}}, DelayMs: delayMs, HorizonS: 600},
			Body: func(w *World, sc *schedCtx) {
				sc.Go("T1", func() {
					h := w.ExecOps([]string{supiA}, []Op{mkCreate(0, "smf1")}, 1, false)
					if len(h.Sess) == 0 {
						return
					}
					ref := h.Sess[0].Ref
					upd := func(req, used, seq int32) int {
						op := Op{K: "update", S: 0, MUs: []MU{{RG: 1, Req: req, Conts: []Cont{{Vol: used, Seq: seq}}}}, Seq: seq}
						return w.Do("POST", ccBase+"/chargingdata/"+ref+"/update", op.Request(supiA), nil).Code
					}
					// steady state first: one complete update with prompt peers
					c0 := upd(50, 0, 1)
					time.Sleep(60 * time.Second)
					vs.Quiesce()
					base := w.Snapshot(true)
					sc.Free()
					c1 := upd(50, 50, 2)
					c2 := upd(50, 50, 3)
					time.Sleep(60 * time.Second)
					vs.Quiesce()
					sc.Stop()
					after := w.Snapshot(true)
					sc.Results["codes"] = []int{c0, c1, c2}
					sc.Results["base"] = [2]int{base.Open + base.Half, base.Gor}
					sc.Results["after"] = [2]int{after.Open + after.Half, after.Gor}
					sc.Results["dials"] = after.Dials
				})
			},
			Observe: func(w *World, sc *schedCtx) (string, []Finding) {
				var fs []Finding
				codes, _ := sc.Results["codes"].([]int)
				base, _ := sc.Results["base"].([2]int)
				after, ok := sc.Results["after"].([2]int)
				if !ok {
					return "incomplete", nil // (a request that never completes is reported as blocked-forever by the engine)
				}
				if after[0] > base[0] {
					fs = append(fs, Finding{"connections-left-behind/slow-peer", fmt.Sprintf("two updates (answered %v) under delayed / unanswered Diameter messages: connections not fully closed %d -> %d one minute after they completed (dials %v)", codes[1:], base[0], after[0], sc.Results["dials"])})
				}
				if after[1] > base[1] {
					fs = append(fs, Finding{"tasks-left-behind/slow-peer", fmt.Sprintf("two updates (answered %v) under delayed / unanswered Diameter messages: background goroutines %d -> %d one minute after they completed (connections %d -> %d)", codes[1:], base[1], after[1], base[0], after[0])})
				}
				return fmt.Sprintf("codes=%v conn=%d->%d gor=%d->%d", codes, base[0], after[0], base[1], after[1]), fs
			},
			Elig: func(def, alt string) bool {
				if alt != "DELAY" {
					return false
				}
				return kindOf(def) == "net.Read" // the delivery of any message, to the CHF's client side or to the peer
			},
		}
	}
}

// c18SilentScenario: the peers never answer (a rating group they know nothing about), so both exchanges of the update end
// by time-out; PARK deviations at the library's locks and at network operations explore the orders in which the
// connection's reader task and the requesting task reach their synchronisation points (in a real run either may be first).
func c18SilentScenario() schedScenario {
	return schedScenario{
		Cfg: WorldCfg{Accounts: []Account{{supiA, 1, "100000", "1"}}, HorizonS: 600},
		Body: func(w *World, sc *schedCtx) {
			sc.Go("T1", func() {
				h := w.ExecOps([]string{supiA}, []Op{mkCreate(0, "smf1")}, 1, false)
				if len(h.Sess) == 0 {
					return
				}
				ref := h.Sess[0].Ref
				upd := func(rg, req, used, seq int32) int {
					op := Op{K: "update", S: 0, MUs: []MU{{RG: rg, Req: req, Conts: []Cont{{Vol: used, Seq: seq}}}}, Seq: seq}
					return w.Do("POST", ccBase+"/chargingdata/"+ref+"/update", op.Request(supiA), nil).Code
				}
				c0 := upd(1, 50, 0, 1)
				c1 := upd(77, 50, 0, 2) // steady state of the silent case as well
				time.Sleep(60 * time.Second)
				vs.Quiesce()
				base := w.Snapshot(true)
				sc.Free()
				c2 := upd(77, 50, 0, 3)
				time.Sleep(60 * time.Second)
				vs.Quiesce()
				sc.Stop()
				after := w.Snapshot(true)
				sc.Results["codes"] = []int{c0, c1, c2}
				sc.Results["base"] = [2]int{base.Open + base.Half, base.Gor}
				sc.Results["after"] = [2]int{after.Open + after.Half, after.Gor}
				sc.Results["dials"] = after.Dials
			})
		},
		Observe: c18SlowScenario(0)().Observe,
		Elig: func(def, alt string) bool {
			if alt != "PARK" {
				return false
			}
			k := kindOf(def)
			return strings.HasPrefix(k, "d.") || strings.HasPrefix(k, "net.")
		},
	}
}

// c18ForeignPeerScenario: the account-balance peer completes the capabilities exchange but does not know the charging
// application (it advertises the applications of go-diameter's stock dictionary only) and never answers a credit-control
// request. Every exchange with it ends by time-out; nothing may be left behind.
func c18ForeignPeerScenario() schedScenario {
	return schedScenario{
		Cfg: WorldCfg{Accounts: []Account{{supiA, 1, "100000", "1"}}, NoABMF: true, HorizonS: 900},
		Body: func(w *World, sc *schedCtx) {
			sc.Go("T1", func() {
				cur := dict.Default
				dict.ResetDefault() // the stock dictionary: base protocol and the standard applications
				mux := sm.New(&sm.Settings{OriginHost: "foreign-abmf", OriginRealm: "go-diameter", VendorID: 13, ProductName: "go-diameter", FirmwareRevision: 1})
				dict.Default = cur
				go diam.ListenAndServeTLS("127.0.0.1:3869", certPem, certKey, mux, nil)
				vs.Quiesce()
				h := w.ExecOps([]string{supiA}, []Op{mkCreate(0, "smf1")}, 1, false)
				if len(h.Sess) == 0 {
					return
				}
				ref := h.Sess[0].Ref
				upd := func(seq int32) int {
					op := Op{K: "update", S: 0, MUs: []MU{{RG: 1, Req: 50, Conts: []Cont{{Vol: 0, Seq: seq}}}}, Seq: seq}
					return w.Do("POST", ccBase+"/chargingdata/"+ref+"/update", op.Request(supiA), nil).Code
				}
				c0 := upd(1)
				time.Sleep(60 * time.Second)
				vs.Quiesce()
				base := w.Snapshot(true)
				sc.Free()
				c1 := upd(2)
				c2 := upd(3)
				time.Sleep(60 * time.Second)
				vs.Quiesce()
				sc.Stop()
				after := w.Snapshot(true)
				sc.Results["codes"] = []int{c0, c1, c2}
				sc.Results["base"] = [2]int{base.Open + base.Half, base.Gor}
				sc.Results["after"] = [2]int{after.Open + after.Half, after.Gor}
				sc.Results["dials"] = after.Dials
			})
		},
		Observe: c18SlowScenario(0)().Observe,
		Elig:    func(def, alt string) bool { return false },
	}
}

// c18DupScenario: a peer's answer reaches the CHF more than once (a retransmission): the copies arrive while the
// exchange is still being served or after it has ended. Nothing may be left behind by the surplus answers.
func c18DupScenario() schedScenario {
	s := c18SlowScenario(6000)()
	s.Elig = func(def, alt string) bool { return alt == "DUP" || (alt == "DELAY" && kindOf(def) == "net.Read") }
	obs := s.Observe
	s.Observe = func(w *World, sc *schedCtx) (string, []Finding) {
		o, fs := obs(w, sc)
		for i := range fs {
			fs[i].Rule = strings.Replace(fs[i].Rule, "/slow-peer", "/repeated-answer", 1)
		}
		return o, fs
	}
	return s
}

func init() {
	schedScenarios["c18-repeated-answer"] = c18DupScenario
	schedScenarios["c18-foreign-peer"] = c18ForeignPeerScenario
	schedScenarios["c18-slow-3s"] = c18SlowScenario(3000)
	schedScenarios["c18-slow-6s"] = c18SlowScenario(6000)
	schedScenarios["c18-silent-peer"] = c18SilentScenario
}

func c18SlowPeers(rep *Report, pool *Pool) (per []map[string]any, execs int, exhaustive bool) {
	exhaustive = true
	for _, name := range []string{"c18-slow-3s", "c18-slow-6s", "c18-silent-peer", "c18-foreign-peer", "c18-repeated-answer"} {
		bound, capExecs := 1, 3000
		if name == "c18-repeated-answer" {
			bound = 2 // a repeated answer that is also late needs two deviations
		}
		if rep.Tier == "thorough" {
			bound, capExecs = 2, 40000
		}
		st := SchedStats{}
		ExploreSchedules(pool, rep, name, bound, capExecs, &st)
		execs += st.Execs
		if st.Capped > 0 || st.Diverged > 0 {
			exhaustive = false
		}
		var outs []string
		for o, n := range st.Outcomes {
			outs = append(outs, fmt.Sprintf("%s x%d", o, n))
		}
		per = append(per, map[string]any{"scenario": name, "deviation_bound": bound, "executions": st.Execs, "by_deviations": st.ByBound, "deviation_points_in_default_schedule": st.EligPoints,
			"distinct_outcomes": len(st.Outcomes), "capped_children": st.Capped, "engine_errors": st.Diverged, "outcomes": strings.Join(outs[:min(len(outs), 12)], "; ")})
	}
	return
}
