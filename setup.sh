#!/bin/bash
# Offline set-up: patched dependency copies, warm build cache. Everything comes from files on disk.
set -eu
cd "$(dirname "$(readlink -f "$0")")"
export VERIF_DIR=$PWD
export GOFLAGS=-mod=mod GOPROXY=off GOSUMDB=off GOTOOLCHAIN=local
mkdir -p .build/bin .build/logs evidence replay
python3 tools/gen.py tp && touch .build/tp/.stamp
[ "${1:-}" = "tp" ] && exit 0
python3 tools/gen.py overlay --repo /repo
# warm the build cache (first build ~60 s)
(cd /repo && go1.26.8 test -c -trimpath -tags verif -vet=off -modfile "$VERIF_DIR/.build/alt.mod" \
   -overlay "$VERIF_DIR/.build/overlay.json" -o "$VERIF_DIR/.build/bin/chfmc.warm.test" ./internal/zzverif)
(cd /repo && go1.26.8 test -c -race -trimpath -tags verif -vet=off -modfile "$VERIF_DIR/.build/alt.mod" \
   -overlay "$VERIF_DIR/.build/overlay.json" -o "$VERIF_DIR/.build/bin/chfmc.warm.test" ./internal/zzverif)
python3 tools/gen.py overlay --real --repo /repo
(cd /repo && go1.26.8 test -c -trimpath -tags verif -vet=off -modfile "$VERIF_DIR/.build/alt-real.mod" \
   -overlay "$VERIF_DIR/.build/overlay-real.json" -o "$VERIF_DIR/.build/bin/chfmc.warm.test" ./internal/zzverif)
rm -f .build/bin/chfmc.warm.test
echo "setup done"
